#!/bin/bash
# ./check.sh <Cxx> <quick|thorough>     run one property's check against /repo's working tree
# ./check.sh --replay <file>            re-execute one recorded violating case
# ./check.sh --build                    build only
set -u
ROOT="$(cd "$(dirname "$0")" && pwd)"
export GOFLAGS=-mod=mod GOPROXY=off GOSUMDB=off GOTOOLCHAIN=local
export VERIF_SEED="${VERIF_SEED:-1}"
PLUSHPKGS='github.com/gobuffalo/plush/v5/...'

# The library under test: /repo's working tree, unless a run was given a copy of its own
# (vp run --with-repo exports VP_RUN_REPO; VERIF_REPO overrides both).
REPO="${VERIF_REPO:-${VP_RUN_REPO:-/repo}}"
export VERIF_REPO="$REPO"
MODFLAGS=()
if [ "$REPO" != "/repo" ]; then
  mkdir -p "$ROOT/work"
  sed "s|=> /repo\$|=> $REPO|" "$ROOT/harness/go.mod" > "$ROOT/work/go.alt.mod"
  cp "$ROOT/harness/go.sum" "$ROOT/work/go.alt.sum"
  MODFLAGS=(-modfile="$ROOT/work/go.alt.mod")
fi

nocgo() {
  # with cgo linked in (package net pulls it in) the Go runtime no longer reports "all goroutines are asleep -
  # deadlock!", which is how a lock the library leaves locked shows up in a worker: keep it out of the harness
  if ( cd "$ROOT/harness" && go list "${MODFLAGS[@]}" -deps -tags verif ./cmd/verifrun 2>/dev/null | grep -qx 'runtime/cgo' ); then
    echo "BUILD FAILED: the harness links runtime/cgo (deadlock detection of the Go runtime would be off)" >&2; exit 2
  fi
}

build() { # $1 = output name, rest = extra flags
  local out="$1"; shift
  ( cd "$ROOT/harness" && go build "${MODFLAGS[@]}" -tags verif "$@" -gcflags="$PLUSHPKGS=-d=checkptr" -o "$ROOT/bin/$out" ./cmd/verifrun ) || { echo "BUILD FAILED" >&2; exit 2; }
}

mkdir -p "$ROOT/bin" "$ROOT/work" "$ROOT/evidence" "$ROOT/replays"

selftest() {
  # the machinery must report a planted panic, wrong output, process death and hang - and nothing else
  local out
  rm -rf "$ROOT/work/selftest"; mkdir -p "$ROOT/work/selftest"
  out=$("$ROOT/bin/verifrun" supervise -prop S00 -tier quick -root "$ROOT/work/selftest" 2>&1)
  local n; n=$(echo "$out" | grep -c '^VIOLATION property=S00')
  if [ "$n" = 4 ] && echo "$out" | grep -q 'signature: selftest:panic@' && echo "$out" | grep -q 'signature: selftest:wrong-output' \
     && echo "$out" | grep -q 'signature: fatal@.*planted process death' && echo "$out" | grep -q 'signature: watchdog@hang' \
     && ! echo "$out" | grep -q 'engine-broken'; then
    echo "selftest ok: planted panic, wrong output, process death and hang were all reported"
    rm -rf "$ROOT/work/selftest"
    return 0
  fi
  echo "SELFTEST FAILED" >&2; echo "$out" >&2; return 2
}

case "${1:-}" in
  --build)
    nocgo; build verifrun; build verifrun-race -race
    ( cd "$ROOT/harness" && go test "${MODFLAGS[@]}" -tags verif -count=1 ./internal/... ) || { echo "REFERENCE MODEL TESTS FAILED" >&2; exit 2; }
    selftest || exit 2
    exit 0;;
  --selftest)
    build verifrun; selftest; exit $?;;
  --replay)
    f="${2:?replay file}"
    prop=$(python3 -c "import json,sys;print(json.load(open(sys.argv[1]))['property'])" "$f")
    if [ "$prop" = "C14" ]; then build verifrun-race -race; exec "$ROOT/bin/verifrun-race" replay "$f"; fi
    build verifrun; exec "$ROOT/bin/verifrun" replay "$f";;
esac

PROP="${1:?property id}"; TIER="${2:-${VERIF_TIER:-quick}}"
if [ "$PROP" = "C14" ]; then
  build verifrun-race -race
  build verifrun
  exec "$ROOT/bin/verifrun-race" supervise -prop "$PROP" -tier "$TIER" -root "$ROOT"
fi
build verifrun
exec "$ROOT/bin/verifrun" supervise -prop "$PROP" -tier "$TIER" -root "$ROOT"
