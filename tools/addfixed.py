#!/usr/bin/env python3
"""usage: addfixed.py <property> <grep-pattern-of-fix-commit-subject> <what failed>"""
import json, subprocess, sys
prop, pat, what = sys.argv[1:4]
sha = subprocess.run(["git","-C","/repo","log","--format=%h","--grep="+pat],capture_output=True,text=True).stdout.split()
assert len(sha)==1, sha
k = json.load(open('/verif/known_findings.json'))
line = f"fixed: property={prop} {sha[0]} {what}"
k['fixed'] = [l for l in k['fixed'] if not (l.split()[2]==sha[0] and l.split()[1]=="property="+prop)] + [line]
json.dump(k, open('/verif/known_findings.json','w'), indent=1)
print(line)
