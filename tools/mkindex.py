#!/usr/bin/env python3
"""mkindex.py - regenerate seeded/INDEX.md from every seed's meta.json / result.json,
seeded/status.json (caught as built / strengthened) and the hand-written seeded/STRENGTHENED.md."""
import json, os, glob
root = "/verif/seeded"
status = json.load(open(f"{root}/status.json"))
rows, n, caught, strengthened, unconfirmed = [], 0, 0, 0, []
for d in sorted(glob.glob(f"{root}/C??-?")):
    sid = os.path.basename(d)
    meta = json.load(open(f"{d}/meta.json"))
    res = json.load(open(f"{d}/result.json")) if os.path.exists(f"{d}/result.json") else {}
    prop = meta["property"]
    chk = res.get("checks", {}).get(prop, {})
    confirmed = res.get("applies") and res.get("suite_passes_with_change") and res.get("demo_fails_with_change") and res.get("demo_passes_without_change")
    n += 1
    if not confirmed:
        unconfirmed.append(sid)
    if chk.get("exit") == 1:
        caught += 1
    st = status.get(sid, "?")
    if st == "strengthened":
        strengthened += 1
    cell = lambda s: str(s).replace("|", "\\|").replace("\n", " ")[:150]
    sig = (chk.get("signatures") or [""])[0]
    rows.append(f"| {sid} | {cell(meta.get('summary',''))} | {cell(meta.get('needs_to_manifest',''))} | {chk.get('exit','-')} | `{cell(sig)}` | {st}{' (re-made on the repaired tree)' if meta.get('rebased') else ''} |")
head = f"""# Independently seeded breaking changes

Each change was produced by a fresh sub-agent that saw only the text of one property and its own scratch worktree of `/repo` (nothing from `/verif`). Every one compiles, passes the 350 existing tests, and comes with a demonstration test that fails with the change and passes without; all of that was re-confirmed here with `tools/seedtest.py` before the change was kept. `result.json` holds the latest run of the property's quick check against it (apply, run, undo) on the current `/repo` HEAD: patches are regenerated whenever a `fix:` commit moves the code under them, and a seed whose precondition a fix removed is re-made on the repaired code (`rebased` in its meta.json) or dropped. Letters: A/B round one, C/D round two, E/F round three (non-obvious site / two cooperating edits), G/H round four (optimisation gone wrong / data- or API-dependent).

{n} changes, {caught} reported by the quick check of their property (exit 1 with VIOLATION lines){'' if not unconfirmed else '; not re-confirmed on the current HEAD: ' + ', '.join(unconfirmed)}. {strengthened} of them were **missed by the check as it stood when the change arrived** and led to the strengthening described below; none led to a looser oracle.

| id | change | needs to manifest | check exit | first signature | status |
|---|---|---|---|---|---|
"""
open(f"{root}/INDEX.md", "w").write(head + "\n".join(rows) + "\n\n" + open(f"{root}/STRENGTHENED.md").read())
print(f"{n} seeds, {caught} caught, {strengthened} strengthened, unconfirmed: {unconfirmed}")
