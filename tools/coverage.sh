#!/bin/bash
# tools/coverage.sh [ids...] — which statements of plush do the quick workloads reach?
# Builds a coverage-instrumented verifrun, runs the quick tier per property in a scratch root
# (work/cover, so evidence/ is not touched) and prints per-property and union statement coverage
# of github.com/gobuffalo/plush/v5/... plus the never-reached blocks (work/cover/unreached.txt).
# Diagnostic only: not a check; coverage is how we look for workload holes, never a verdict.
set -u
ROOT="$(cd "$(dirname "$0")/.." && pwd)"
export GOFLAGS=-mod=mod GOPROXY=off GOSUMDB=off GOTOOLCHAIN=local
export VERIF_SEED="${VERIF_SEED:-1}"
W="$ROOT/work/cover"; rm -rf "$W"; mkdir -p "$W/bin"
PK='github.com/gobuffalo/plush/v5/...'
( cd "$ROOT/harness" && go build -tags verif -cover -coverpkg="./...,$PK" -o "$W/bin/verifrun" ./cmd/verifrun ) || exit 2
ids="$@"; [ -z "$ids" ] && ids=$("$W/bin/verifrun" list | grep -v S00)
for id in $ids; do
  [ "$id" = C14 ] && continue   # C14 runs the race build; its templates are the shared generator's
  mkdir -p "$W/data/$id" "$W/root/$id"
  GOCOVERDIR="$W/data/$id" "$W/bin/verifrun" supervise -prop "$id" -tier quick -root "$W/root/$id" >"$W/$id.log" 2>&1
  pct=$(cd "$ROOT/harness" && go tool covdata percent -i "$W/data/$id" 2>/dev/null | awk '{n++; s+=$NF} END{print n" pkgs"}')
  ( cd "$ROOT/harness" && go tool covdata textfmt -i "$W/data/$id" -o "$W/$id.txt" )
  python3 - "$W/$id.txt" "$id" <<'PY'
import sys
tot=cov=0
for l in open(sys.argv[1]):
    if l.startswith('mode:') or 'verifharness/' in l: continue
    loc,n,c=l.rsplit(' ',2)
    tot+=int(n); cov+=int(n) if int(c)>0 else 0
print(f"{sys.argv[2]}: {cov}/{tot} statements of plush reached ({100*cov/tot:.1f}%)")
PY
done
dirs=$(ls -d "$W"/data/* | paste -sd,)
( cd "$ROOT/harness" && go tool covdata textfmt -i "$dirs" -o "$W/union.txt" )
python3 - "$W/union.txt" "$W/unreached.txt" <<'PY'
import sys,collections
tot=cov=0; per=collections.defaultdict(lambda:[0,0]); un=[]
seen={}
for l in open(sys.argv[1]):
    if l.startswith('mode:') or 'verifharness/' in l: continue
    loc,n,c=l.rsplit(' ',2); n=int(n); c=int(c)
    seen[loc]=(n,max(c,seen.get(loc,(0,0))[1]))
for loc,(n,c) in seen.items():
    f=loc.split(':')[0]
    per[f][1]+=n; tot+=n
    if c>0: per[f][0]+=n; cov+=n
    else: un.append(loc)
print(f"UNION: {cov}/{tot} statements ({100*cov/tot:.1f}%)")
for f,(a,b) in sorted(per.items()):
    print(f"  {f.replace('github.com/gobuffalo/plush/v5/',''):45s} {a:5d}/{b:5d} {100*a/b:5.1f}%")
open(sys.argv[2],'w').write("\n".join(sorted(un))+"\n")
PY
