#!/usr/bin/env python3
"""Regenerates /verif/MANIFEST.json from the table below (checks that exist) and
properties.jsonl (ids). Properties without a built check are listed under
not_applicable with the reason."""
import json, os, subprocess
ROOT = os.path.dirname(os.path.dirname(os.path.abspath(__file__)))
ids = [json.loads(l)["id"] for l in open(os.path.join(ROOT, "properties.jsonl"))]

# id -> (category, technique, level text, level note, design ref)
CHECKS = {
 "C03": ("exploration",
         "runtime monitor over generated inputs: panic/recover oracle + lexer step-budget hook (H1) deciding non-termination by logical steps; checkptr-instrumented build",
         "Every input of the enumerated/generated families is parsed by the real parser under recover with a per-lexer step budget; a panic, a budget overrun, (nil,nil) or an empty error is a violation. Exhaustive over all sequences of <=3 (quick) / <=4 (thorough) lexemes of a 60-lexeme vocabulary in 8 framings, plus token soup, corpus mutations and nesting ladders. Held-on-observed, not a proof: inputs outside the families are not covered.",
         "Trusted: Go runtime recover semantics; H1 budget constant (64*len+4096 steps) is large enough never to fire on a terminating parse; the harness' own generators.",
         "DESIGN.md §5 C03"),
 "C04": ("exploration",
         "runtime monitor: exhaustive value-kind matrices rendered by the real engine under recover (panic oracle), checkptr build; process-fatal errors caught via per-case journal",
         "Every cell of the operator / index read / index write / member / iterable / callee x argument / user-function arity / built-in helper x argument matrices over a 55-kind value pool is rendered with a fresh context; any panic is a violation, an error must come with empty output. Matrices are enumerated completely; random well-formed programs with pool leaves on top. Says nothing about value kinds or helper signatures outside the pool.",
         "Trusted: fixture methods/helpers are total; recover() catches all engine panics (fatal runtime errors are caught by the supervisor instead).",
         "DESIGN.md §5 C04"),
 "C02": ("exploration",
         "runtime monitor: reference literal-text scanner + constructive expected-output model compared byte for byte with the engine's output",
         "G2 enumerates every tag-free string up to length 6/8 over a 9-symbol alphabet and compares the render with a reference scanner for the two escapes; G1 builds templates from segment lists whose expected output is known by construction (text, <%= %> values incl. arbitrary string literals, silent tags, comments, nested in if/else/for/fn/helper/contentFor blocks). Byte equality and err==nil are required. Exhaustive for G2 within its bound; G1 is random sampling.",
         "Trusted: the 30-line reference scanner and the generator's bookkeeping of expected output; abstentions listed in evidence assumptions.",
         "DESIGN.md §5 C02"),
 "C01": ("exploration",
         "runtime taint monitor: marked hostile payloads driven through generated plumbing routes of the real engine; output judged by a model-free escaping scanner and an expected-output model",
         "Unique-id payloads with hostile bodies are sent from 16 kinds of source through 19 plumbing steps to 9 sinks; every (source, step, sink) triple and every step pair is enumerated, deeper routes are sampled. The output must equal the generator's expected output (strings escaped exactly once, trusted HTML verbatim exactly once), judged entity-agnostically, and must contain no raw special character outside trusted payloads. Held on the routes generated; routes outside the grammar are not covered.",
         "Trusted: html/template's escaper as the canonical escaping; generator bookkeeping of the expected segment list; safe alphabet of literal text.",
         "DESIGN.md §5 C01"),
 "C05": ("fault_enumeration",
         "runtime fault injection through instrumented helpers: a sentinel-returning helper / counted failing operations placed at every enumerated position of host templates; monitor on (output, error) at the API boundary gated by the helper's invocation counter",
         "Every (statement position x expression position) pair is instantiated for 7 fault kinds and rendered by the real engine; when the instrumented helper's counter shows the fault was reached, Render must return an empty string and an error (errors.Is the sentinel for helper errors). Nestings to depth 3 are sampled; the tolerated unknown-identifier cases are checked to still succeed.",
         "Trusted: the enumerated position list is what 'every position' means here (54 statement positions x 43 expression positions); helper counters are exact because rendering is single-threaded per case.",
         "DESIGN.md §5 C05"),
 "C06": ("exploration",
         "runtime differential monitor: generated expression trees evaluated by the real engine and by a reference evaluator of the documented operator semantics; value, error status and recorded evaluation trace compared; three parenthesisations compared metamorphically",
         "All trees of depth 1 over 22 leaves and of depth 2 over a 12-leaf pool (1/10 sample in quick, all in thorough), random trees to depth 5, each printed with minimal / random / full parentheses and with every leaf wrapped in a recording helper. Engine and reference must agree on value, on error vs no error and on the order and multiplicity of leaf evaluation (short circuit); the printings must agree among themselves. Operand pairs the property leaves open are executed but not judged (counted as abstained).",
         "Trusted: the 150-line reference evaluator as the reading of the property text; Go int/float64 arithmetic as the meaning of integer/float operators.",
         "DESIGN.md §5 C06"),
 "C07": ("exploration",
         "runtime monitor: exhaustive kind x syntactic-context truth matrix against the property's truth table, and branch-selection monitor with recording condition helpers over all truth assignments of if/else-if/else chains",
         "Every value kind of the pool is tested in 13 syntactic contexts and must have the table's truth value in all of them; chains of up to 5 branches with every truth assignment are rendered in 7 nesting contexts and two layouts, with conditions wrapped in a recording helper: exactly the first truthy branch's marker is output and exactly the conditions up to it are evaluated.",
         "Trusted: the truth table as transcribed from the property text; recording helper is exact (single-threaded renders).",
         "DESIGN.md §5 C07"),
 "C08": ("exploration",
         "runtime differential monitor: generated loops rendered by the real engine vs. a reference loop interpreter; multiset comparison for maps; engine-vs-engine unrolling relation for control-free bodies",
         "Random loops over 30 iterables (all kinds named in the property, lengths 0-6, nil and non-iterables) with bodies from a statement grammar that places if-guarded break/continue/return at every position, before/after/inside inner loops, function literals and if blocks, in multi-tag and single-tag layout. Output must equal the reference interpreter's (once per element, in order, control statements keeping what the iteration produced); non-iterables must be errors; loops lexically valid must not be rejected.",
         "Trusted: the 60-line reference interpreter; the generator avoids the corners the property leaves open (break in map bodies, text in silent if before a control statement).",
         "DESIGN.md §5 C08"),
 "C16": ("exploration",
         "runtime differential monitor: generated template functions (decision chains) called by the real engine vs. a reference interpreter; recorded tick and argument traces",
         "Random functions of 0-4 parameters with nested if/else-if/else/return bodies are called with argument tuples that include caller variables named like the parameters (swapped, reversed) and recorded arguments; the call's value is used in 12 different ways. The engine's output, the ticks executed (nothing after the taken return) and the argument evaluation trace must equal the reference. Fixed higher-order and recursive programs (depth <= 12) are checked against computed values.",
         "Trusted: the reference interpreter of the decision chain; per-use expected-output formulas.",
         "DESIGN.md §5 C16"),
 "C09": ("exploration",
         "runtime differential monitor: generated nestings of scoping constructs with let/probe statements rendered by the real engine vs. an environment-chain reference model",
         "All 155 nestings (depth <= 3) of for / function call / partial / contentFor+contentOf / block-with-context, each with random fresh and shadowing lets, shadowing binders and probes of three names before, inside and after every construct; every probe's output must equal what the environment-chain model predicts (no leak, no clobber, outer names readable, top-level let persists).",
         "Trusted: the 20-line environment-chain model; abstentions (plain assignment, multi-iteration let visibility, detached function definitions) are not generated.",
         "DESIGN.md §5 C09"),
 "C11": ("exploration",
         "runtime differential monitor: self-describing data graphs; every path of the type graph walked by the real engine and by Go reflection navigation, outputs compared",
         "Data graphs in which every leaf string spells its own Go path make a wrong element, index or depth visible in the output. All walks of the type graph up to 4 steps from 4 roots (fields, literal/variable/computed indexes, map keys, value and pointer methods, plus failing steps: unknown/unexported members, out-of-range indexes, missing keys, nil pointers) and random walks up to 8 steps are rendered in output, let, if and loop position; a path that navigates in Go must render exactly that leaf, a failing one must give an error or nothing.",
         "Trusted: the reflection navigator as 'what Go navigation yields'; fixture methods are total.",
         "DESIGN.md §5 C11"),
 "C12": ("exploration",
         "runtime monitor with recording helpers generated by reflect.MakeFunc; a reference binder written from the property text predicts accept/reject and the exact received arguments",
         "3096 helper signatures (fixed parameters, optional trailing map / helper context by struct or interface type, variadic tails, 6 result shapes) are crossed with all calls of 0-3 arguments over 8 argument kinds, with and without a block. For each call the recording body reports what it received; this must equal the binder's prediction (positional, unchanged values, nil -> zero value, automatic map/context carrying the block, variadic tail), rejected calls must not invoke the helper and must name it in the error, the first result is the value, a non-nil error result fails the render with errors.Is.",
         "Trusted: the reference binder; Go's reflect.AssignableTo as the meaning of 'assignable'.",
         "DESIGN.md §5 C12"),
 "C15": ("exploration",
         "runtime monitor: generator-counted line oracle plus a metamorphic shift relation on the real engine's error text",
         "Each of 27 fault kinds is placed as a single-line tag in 13 containers after prefixes built from 20 kinds of multi-line constructs; the error must start with 'line N:' for the N the generator counted, and for k in {1,2,7,100} the same template preceded by k lines (empty or text) must give the same error with every line-start 'line M:' increased by exactly k.",
         "Trusted: the generator's newline count; the regular expression that locates line prefixes.",
         "DESIGN.md §5 C15"),
 "C18": ("exploration",
         "runtime metamorphic monitor: generated programs kept as token lists are re-laid out (separators, line comments, comment tags, tag merging/splitting) and every layout's rendering by the real engine is compared with the canonical layout's",
         "Programs covering every construct are printed canonically (one statement per tag) and in 30/60 random re-layouts that vary only what the property calls insignificant; output, or the error text modulo 'line N:', must be identical. No reference model is involved: the relation is between two runs of the real engine.",
         "Trusted: the printer inserts mandatory whitespace exactly where the property's '-'/'.' exception and word tokens require it and never splits '} else {'.",
         "DESIGN.md §5 C18"),
 "C17": ("exploration",
         "runtime second-route monitor: composed rendering (partial/layout/contentFor/contentOf/block helper) by the real engine vs. the same body rendered inline by the real engine in the equivalent scope, assembled by the harness; recorded side-effect traces for exactly-once",
         "Random bodies and data are rendered through 10 composition kinds under three content types and three name extensions; the result must equal the harness-assembled expectation built from a separate plush.Render of the body in scope.New()+data (JS-escaped and wrapped in the layout as the property states), contentFor must emit nothing where defined, undefined contentOf without default must fail, and the recording helpers inside the body must fire exactly as often as inline.",
         "Trusted: html/template's JSEscapeString as the meaning of JS escaping; the harness' assembly rules transcribed from the property. Detects disagreement between two routes, not a common error of both.",
         "DESIGN.md §5 C17"),
 "C13": ("exploration",
         "runtime monitor: repeated / interleaved executions of generated templates through every execution route (Exec, Clone, Render, Parse+Exec, cache off / cold / warm) compared for equality of output, error and recorded side-effect trace; deep structural hash of the parsed program (hook H2) before and after every Exec",
         "Per case 1-4 generated templates (biased to hash literals with side-effecting values and duplicate keys) are executed in an interleaved history through all routes and then 30/300 more times with a fresh parse; each execution gets an equal, freshly built context. All observations of one text must be identical and the program's structural hash must not change across an Exec. Nondeterminism that depends on Go map order is probabilistic: 30 repeats of a 4-entry literal miss it with p < 0.01.",
         "Trusted: the reflection hasher covers every field reachable from *ast.Program; equal contexts are built by one constructor.",
         "DESIGN.md §5 C13"),
 "C10": ("exploration",
         "runtime monitor: exhaustive bounded enumeration of New/Set histories driven on real plush.Context values, every Value/Has observation compared with a chain-of-scopes reference model; long random histories on top",
         "All histories of length <= 5 (quick) / <= 6 (thorough) over {New(i), Set(i,k,v)} with 3 keys (one a built-in helper's name) and 3 values (incl. nil) from 8 kinds of root are executed on fresh real contexts without state merging and compared with the model after the last operation (prefixes are histories themselves); random histories of length 200 on up to 8 contexts are compared after every operation.",
         "Trusted: the 15-line reference model; func pointer identity to recognise the built-in helper.",
         "DESIGN.md §5 C10"),
 "C19": ("exploration",
         "runtime monitor: exported helper functions called directly and through templates over exhaustive small ranges and int extremes; sequences compared with overflow-checked expectations, termination decided by a Next() call budget; groupBy judged by partition laws and by agreement of the two shipped implementations",
         "Every (a, b, n) in [-8, 8] and at the int extremes for range/between/until, every length 0-40 x group count -2..12 x 7 container/element types for both groupBy implementations, and len over strings/slices/arrays/maps/pointers are executed; results are compared with arithmetic expectations and partition laws. Exhaustive over the stated ranges; larger values sampled.",
         "Trusted: overflow-checked expectation code (20 lines); a sequence ends at the first nil from Next().",
         "DESIGN.md §5 C19"),
 "C20": ("exploration",
         "runtime predicate monitors over exhaustive short strings and random strings / JSON values, on the exported helpers and on plush.Render output",
         "truncate is checked against the bound/prefix/no-split predicates for all strings of length <= 5 over a 4-symbol alphabet x sizes x trails and for random strings with multi-byte, combining and invalid bytes; htmlEscape/jsEscape/raw for all strings of length <= 3 over a 16-symbol hostile alphabet plus random byte strings; toJSON for generated JSON values (validity, round trip, no raw < > &).",
         "Trusted: encoding/json as the JSON oracle; the backslash-pairing scanner for jsEscape; rune counting by []rune conversion.",
         "DESIGN.md §5 C20"),
}
NOT_YET = "check not built yet in this round (see DESIGN.md §5 for the planned monitor)"

checks = []
na = []
for i in ids:
    if i in CHECKS:
        cat, tech, text, note, ref = CHECKS[i]
        checks.append({
            "property_id": i,
            "quick_cmd": f"./check.sh {i} quick",
            "thorough_cmd": f"./check.sh {i} thorough",
            "evidence_file": f"/verif/evidence/{i}.json",
            "replay_cmd_template": "./check.sh --replay {path}",
            "engine": "verifrun",
            "level_claimed": {"category": cat, "text": text, "design_ref": ref},
            "level_note": note,
            "technique": tech,
        })
    else:
        na.append({"property_id": i, "reason": NOT_YET})

hooks_commits = subprocess.run(["git", "-C", "/repo", "log", "--format=%H", "--grep=^verif hooks"], capture_output=True, text=True).stdout.split()
m = {
 "version": 1,
 "setup_cmd": "./check.sh --build",
 "hooks": {
   "guard": "verif",
   "enable": "go build -tags verif (the harness module replaces github.com/gobuffalo/plush/v5 with /repo, so every check build compiles /repo's working tree with the tag on)",
   "baseline_off_cmd": "cd /repo && GOFLAGS=-mod=mod GOPROXY=off GOSUMDB=off GOTOOLCHAIN=local go test -json -vet=off -count=1 -timeout 25m ./...",
   "source_commits": hooks_commits,
   "add_only": True,
 },
 "engines": [{"name": "verifrun", "path": "/verif/harness", "serves_properties": sorted(CHECKS), "kind_free_text": "Go supervisor/worker harness: generated workloads run against the real engine in child processes under recover, journalled per case; deterministic oracles (reference models, metamorphic relations, race detector, porcupine) judge each execution"}],
 "checks": checks,
 "not_applicable": na,
 "notes": "All checks: ./check.sh <id> <quick|thorough>; VERIF_SEED selects the PRNG stream. known_findings.json lists genuine unrepaired defects by signature; fixed ones are listed there as 'fixed:' lines.",
}
json.dump(m, open(os.path.join(ROOT, "MANIFEST.json"), "w"), indent=1)
print("checks:", len(checks), "not_applicable:", len(na))
