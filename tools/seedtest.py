#!/usr/bin/env python3
"""seedtest.py <seed-dir> [--checks C01,C02] [--tier quick]

Confirms a seeded breaking change and runs checks against it.
 1. /repo must be clean; the patch is applied with `git apply`.
 2. the library builds and its own suite passes with the change;
 3. the demonstration test fails with the change;
 4. the named checks (default: the property in meta.json) are run; their exit
    codes and VIOLATION signatures are recorded;
 5. the patch is undone (git checkout -- . and the demo file removed), and the
    demonstration test is run again on the clean tree (must pass).
Writes <seed-dir>/result.json and prints a one-line verdict.
"""
import json, os, re, subprocess, sys, shutil

ENV = dict(os.environ, GOFLAGS="-mod=mod", GOPROXY="off", GOSUMDB="off", GOTOOLCHAIN="local")

def sh(cmd, cwd=None, timeout=3600):
    p = subprocess.run(cmd, shell=True, cwd=cwd, env=ENV, capture_output=True, text=True, errors="replace", timeout=timeout)
    return p.returncode, p.stdout + p.stderr

def main():
    seed = os.path.abspath(sys.argv[1])
    args = sys.argv[2:]
    tier = "quick"
    checks = None
    for i, a in enumerate(args):
        if a == "--checks": checks = args[i+1].split(",")
        if a == "--tier": tier = args[i+1]
    meta = json.load(open(os.path.join(seed, "meta.json")))
    prop = meta["property"]
    if checks is None: checks = [prop]
    res = {"seed": seed, "property": prop, "tier": tier}
    rc, out = sh("git status --porcelain", "/repo")
    if out.strip():
        print("REPO NOT CLEAN:", out); sys.exit(2)
    patch = os.path.join(seed, "patch.diff")
    demo = os.path.join(seed, "demo_test.go")
    src = open(demo).read()
    m = re.search(r"^package\s+(\w+)", src, re.M)
    pkg = m.group(1)
    # where does the demo go: directory named in meta or by package name
    ddir = meta.get("demo_dir")
    if not ddir:
        if pkg in ("plush", "plush_test"): ddir = "."
        else:
            base = pkg[:-5] if pkg.endswith("_test") else pkg
            cands = [d for d, _, fs in os.walk("/repo") if os.path.basename(d) == base and ".git" not in d]
            ddir = os.path.relpath(cands[0], "/repo") if cands else "."
    dest = os.path.join("/repo", ddir, "zz_seed_demo_test.go")
    try:
        rc, out = sh(f"git apply {patch}", "/repo")
        if rc != 0:
            # the tree has moved on since the patch was made: three-way merge against the blobs it names
            rc, out = sh(f"git apply --3way {patch}", "/repo")
            res["applied_with_3way_merge"] = rc == 0
            if rc == 0:
                sh("git reset -q", "/repo")
                rc2, conf = sh("grep -l '^<<<<<<<' $(git diff --name-only) 2>/dev/null", "/repo")
                if conf.strip():
                    rc = 1
                    out = "merge conflicts in " + conf
        res["applies"] = rc == 0
        if rc != 0:
            res["apply_error"] = out[-500:]
            print(f"{os.path.basename(os.path.dirname(os.path.dirname(seed)))} {os.path.basename(seed)}: PATCH DOES NOT APPLY to the current /repo: {out[-200:]}")
            raise SystemExit
        rc, out = sh("go build ./... && go test -vet=off -count=1 ./...", "/repo")
        res["suite_passes_with_change"] = rc == 0
        if rc != 0: res["suite_output"] = out[-1500:]
        shutil.copy(demo, dest)
        race = "-race " if meta.get("demo_needs_race_flag") else ""
        rc2, out2 = sh(f"go test {race}-vet=off -count=1 -timeout 300s ./{ddir}/", "/repo")
        res["demo_fails_with_change"] = rc2 != 0
        os.remove(dest)
        res["checks"] = {}
        for c in checks:
            rc, out = sh(f"./check.sh {c} {tier}", "/verif", timeout=7200)
            sigs = re.findall(r"^  signature: (.*)$", out, re.M)
            res["checks"][c] = {"exit": rc, "violation_lines": len(re.findall(r"^VIOLATION ", out, re.M)), "signatures": sigs[:12], "summary": out.strip().splitlines()[-1][:300] if out.strip() else ""}
    finally:
        if os.path.exists(dest): os.remove(dest)
        sh("git reset -q", "/repo")
        sh("git checkout -- .", "/repo")
        sh("git clean -fdq", "/repo")
    if res.get("applies"):
        shutil.copy(demo, dest)
        race = "-race " if meta.get("demo_needs_race_flag") else ""
        rc, out = sh(f"go test {race}-vet=off -count=1 -timeout 300s ./{ddir}/", "/repo")
        res["demo_passes_without_change"] = rc == 0
        if rc != 0: res["demo_clean_output"] = out[-800:]
        os.remove(dest)
    rc, out = sh("git status --porcelain", "/repo")
    res["repo_clean_after"] = not out.strip()
    json.dump(res, open(os.path.join(seed, "result.json"), "w"), indent=1)
    confirmed = res.get("applies") and res.get("suite_passes_with_change") and res.get("demo_fails_with_change") and res.get("demo_passes_without_change")
    caught = [c for c, r in res.get("checks", {}).items() if r["exit"] == 1]
    print(f"{os.path.basename(os.path.dirname(seed))}/{os.path.basename(seed)} confirmed={bool(confirmed)} caught_by={caught} " +
          " ".join(f"{c}:exit{r['exit']}" for c, r in res.get("checks", {}).items()))
    if not confirmed:
        print("  details:", {k: v for k, v in res.items() if k not in ("checks",)})

if __name__ == "__main__":
    main()
