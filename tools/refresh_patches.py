#!/usr/bin/env python3
"""refresh_patches.py <worktree-of-/repo-at-HEAD>

Seed patches are made against the tree of their day. After /repo has moved on,
`git apply` may need a three-way merge; this rewrites every such patch.diff as a
plain diff against the worktree's HEAD (so that `git -C /repo apply <file>`
works again) and lists the patches that no longer merge at all.
"""
import glob, json, os, subprocess, sys
wt = sys.argv[1]
def sh(c):
    p = subprocess.run(c, shell=True, cwd=wt, capture_output=True, text=True)
    return p.returncode, p.stdout + p.stderr
assert sh("git status --porcelain")[1].strip() == "", "worktree not clean"
plain = refreshed = 0
failed = []
for d in sorted(glob.glob("/verif/seeded/C*-*")):
    patch = os.path.join(d, "patch.diff")
    if sh(f"git apply --check {patch}")[0] == 0:
        plain += 1
        continue
    rc, out = sh(f"git apply --3way {patch}")
    sh("git reset -q")
    conflicts = sh("grep -l '^<<<<<<<' $(git diff --name-only) 2>/dev/null")[1].strip()
    if rc != 0 or conflicts:
        failed.append(os.path.basename(d))
    else:
        diff = sh("git diff")[1]
        open(patch, "w").write(diff)
        m = json.load(open(os.path.join(d, "meta.json")))
        m["patch_refreshed_against"] = sh("git rev-parse --short HEAD")[1].strip()
        json.dump(m, open(os.path.join(d, "meta.json"), "w"), indent=1)
        refreshed += 1
    sh("git checkout -- . && git clean -fdq")
print(f"plain: {plain}, refreshed: {refreshed}, no longer merge: {failed}")
