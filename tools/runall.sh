#!/bin/bash
# tools/runall.sh <quick|thorough> [ids...]  — run checks in sequence, print one summary line each
cd "$(dirname "$0")/.."
tier="${1:-quick}"; shift
ids="$@"
if [ -z "$ids" ]; then ids=$(python3 -c "import json;print(' '.join(c['property_id'] for c in json.load(open('MANIFEST.json'))['checks']))"); fi
rc=0
for id in $ids; do
  out=$(./check.sh $id $tier 2>&1); code=$?
  echo "$out" | grep -a "^VIOLATION\|^KNOWN-FINDING\|BROKEN\|BUILD FAILED" | cut -c1-200
  echo "$out" | tail -1 | cut -c1-250
  [ $code -ne 0 ] && { echo "  -> exit $code"; rc=1; }
done
exit $rc
