package core

// Rng is a splitmix64 PRNG: a pure function of its seed, no global state.
type Rng struct{ s uint64 }

func NewRng(seed uint64) *Rng { return &Rng{s: seed*0x9E3779B97F4A7C15 + 0x1234567} }

// Derive makes an independent stream from labels.
func Derive(seed uint64, labels ...uint64) *Rng {
	r := NewRng(seed)
	for _, l := range labels {
		r.s ^= Mix(l + 0x9E3779B97F4A7C15)
		r.Uint64()
	}
	return r
}

func Mix(z uint64) uint64 {
	z = (z ^ (z >> 30)) * 0xBF58476D1CE4E5B9
	z = (z ^ (z >> 27)) * 0x94D049BB133111EB
	return z ^ (z >> 31)
}

func (r *Rng) Uint64() uint64 {
	r.s += 0x9E3779B97F4A7C15
	return Mix(r.s)
}

func (r *Rng) Intn(n int) int {
	if n <= 0 {
		return 0
	}
	return int(r.Uint64() % uint64(n))
}

// Range returns lo..hi inclusive.
func (r *Rng) Range(lo, hi int) int { return lo + r.Intn(hi-lo+1) }

func (r *Rng) Bool() bool { return r.Uint64()&1 == 1 }

// Chance is true with probability num/den.
func (r *Rng) Chance(num, den int) bool { return r.Intn(den) < num }

func (r *Rng) Pick(xs []string) string { return xs[r.Intn(len(xs))] }

func (r *Rng) Perm(n int) []int {
	p := make([]int, n)
	for i := range p {
		p[i] = i
	}
	for i := n - 1; i > 0; i-- {
		j := r.Intn(i + 1)
		p[i], p[j] = p[j], p[i]
	}
	return p
}

// HashStr is FNV-1a 64 finished with Mix; used for case identity.
func HashStr(parts ...string) uint64 {
	h := uint64(14695981039346656037)
	for _, p := range parts {
		for i := 0; i < len(p); i++ {
			h ^= uint64(p[i])
			h *= 1099511628211
		}
		h ^= 0xff
		h *= 1099511628211
	}
	return Mix(h)
}
