package core

import "os"

import "sort"

// Prop is one property's workload + oracle.
type Prop struct {
	ID      string
	Level   string // evidence level: exploration | fault_enumeration
	Rule    string // how cases are generated and what makes one non-trivial
	Assume  []string
	Batches func(t Tier) int
	Run     func(b *B)
	// Exhaustive says whether the tier enumerates a finite space completely
	// (the random supplements on top do not count).
	Exhaustive func(t Tier) bool
	// BatchTimeoutS overrides the per-batch watchdog (seconds).
	BatchTimeoutS func(t Tier) int
	// Post lets a property add aggregated keys to the evidence coverage.
	Post func(hist map[string]int64, cov map[string]any)
	// ConfirmTimeoutS is the limit for re-running a case the watchdog stopped (default 20 s).
	ConfirmTimeoutS int
	// Env gives extra environment variables for a batch's worker process.
	Env func(root string, batch int) []string
	// MaxProcs limits worker parallelism (0 = number of CPUs).
	MaxProcs int
}

var registry = map[string]*Prop{}

func Register(p *Prop) { registry[p.ID] = p }

func Lookup(id string) *Prop { return registry[id] }

func AllIDs() []string {
	ids := []string{}
	for k := range registry {
		ids = append(ids, k)
	}
	sort.Strings(ids)
	return ids
}

// Root is the /verif directory (set by the worker from -root).
var Root = "/verif"

// RepoDir is the directory of the library under test (check.sh exports VERIF_REPO).
func RepoDir() string {
	if d := os.Getenv("VERIF_REPO"); d != "" {
		return d
	}
	return "/repo"
}
