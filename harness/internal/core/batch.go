package core

import (
	"encoding/binary"
	"encoding/json"
	"fmt"
	"os"
	"sort"
	"syscall"
)

type Tier int

const (
	Quick Tier = iota
	Thorough
)

func (t Tier) String() string {
	if t == Thorough {
		return "thorough"
	}
	return "quick"
}

func ParseTier(s string) Tier {
	if s == "thorough" {
		return Thorough
	}
	return Quick
}

// Witness is one concrete violating case.
type Witness struct {
	Ordinal int64  `json:"ordinal"`
	Batch   int    `json:"batch"`
	Input   string `json:"input"`
	Detail  string `json:"detail"`
}

// VioAgg aggregates all violations with one signature.
type VioAgg struct {
	Sig       string    `json:"sig"`
	Count     int64     `json:"count"`
	Witnesses []Witness `json:"witnesses"`
}

// Result is what one worker batch reports to the supervisor.
type Result struct {
	Prop         string             `json:"prop"`
	Batch        int                `json:"batch"`
	Evaluations  int64              `json:"evaluations"`
	NTByConstr   int64              `json:"nontrivial_by_construction"`
	NTHashes     []uint64           `json:"-"`
	NTHashCount  int                `json:"nontrivial_hashed"`
	Hist         map[string]int64   `json:"hist"`
	Violations   map[string]*VioAgg `json:"violations"`
	Samples      []any              `json:"samples"`
	Abstained    int64              `json:"abstained"`
	Inconclusive int64              `json:"inconclusive"`
	Skipped      []int64            `json:"skipped"`
	Extra        map[string]any     `json:"extra,omitempty"`
	Done         bool               `json:"done"`
}

const journalSize = 1 << 16

// B is the per-batch context handed to a property's Run function.
type B struct {
	Prop     string
	Tier     Tier
	Seed     uint64
	Batch    int
	NBatches int

	Only    int64          // if >0 execute only this ordinal (replay), verbose
	Skip    map[int64]bool // ordinals to skip (crashed / hung cases)
	Verbose bool

	ordinal int64
	curIn   string
	journal []byte
	res     Result
	ntSet   map[uint64]struct{}
	maxSamp int

	autoSamples []any
}

func clipS(s string, n int) string {
	if len(s) > n {
		return s[:n] + "…"
	}
	return s
}

func NewB(prop string, tier Tier, seed uint64, batch, nb int, journalPath string) (*B, error) {
	b := &B{Prop: prop, Tier: tier, Seed: seed, Batch: batch, NBatches: nb, maxSamp: 3}
	b.res = Result{Prop: prop, Batch: batch, Hist: map[string]int64{}, Violations: map[string]*VioAgg{}, Extra: map[string]any{}}
	b.ntSet = map[uint64]struct{}{}
	b.Skip = map[int64]bool{}
	if journalPath != "" {
		f, err := os.OpenFile(journalPath, os.O_RDWR|os.O_CREATE|os.O_TRUNC, 0o644)
		if err != nil {
			return nil, err
		}
		if err := f.Truncate(journalSize); err != nil {
			return nil, err
		}
		m, err := syscall.Mmap(int(f.Fd()), 0, journalSize, syscall.PROT_READ|syscall.PROT_WRITE, syscall.MAP_SHARED)
		if err != nil {
			return nil, err
		}
		f.Close()
		b.journal = m
	}
	return b, nil
}

// Rng returns a PRNG stream that depends on seed, property and batch plus labels.
func (b *B) Rng(labels ...uint64) *Rng {
	ls := append([]uint64{HashStr(b.Prop), uint64(b.Batch)}, labels...)
	return Derive(b.Seed, ls...)
}

// Mine reports whether item i of a globally enumerated list belongs to this batch.
func (b *B) Mine(i int64) bool { return int(i%int64(b.NBatches)) == b.Batch }

// Begin journals the case about to be executed (survives a process-fatal
// error through the shared mapping) and says whether to execute it.
func (b *B) Begin(input string) bool {
	b.ordinal++
	if b.Only > 0 && b.ordinal != b.Only {
		return false
	}
	if b.Skip[b.ordinal] {
		b.res.Skipped = append(b.res.Skipped, b.ordinal)
		return false
	}
	b.curIn = input
	if b.journal != nil {
		n := len(input)
		if n > journalSize-16 {
			n = journalSize - 16
		}
		binary.LittleEndian.PutUint64(b.journal[0:8], uint64(b.ordinal))
		binary.LittleEndian.PutUint32(b.journal[8:12], uint32(n))
		copy(b.journal[12:], input[:n])
	}
	b.res.Evaluations++
	if b.ordinal == 7 || b.ordinal == 777 || b.ordinal == 77777 {
		b.autoSamples = append(b.autoSamples, map[string]any{"case": fmt.Sprintf("batch %d #%d", b.Batch, b.ordinal), "input": clipS(input, 600)})
	}
	if b.Only > 0 {
		fmt.Printf("REPLAY ordinal=%d input=%q\n", b.ordinal, input)
	}
	return true
}

// ReadJournal returns the last case a (dead) worker began.
func ReadJournal(path string) (ordinal int64, input string, ok bool) {
	d, err := os.ReadFile(path)
	if err != nil || len(d) < 12 {
		return 0, "", false
	}
	o := int64(binary.LittleEndian.Uint64(d[0:8]))
	n := int(binary.LittleEndian.Uint32(d[8:12]))
	if o == 0 || 12+n > len(d) {
		return 0, "", false
	}
	return o, string(d[12 : 12+n]), true
}

func (b *B) Ordinal() int64 { return b.ordinal }

// ViolationCount is the number of violations recorded so far in this batch.
func (b *B) ViolationCount() int64 {
	var n int64
	for _, v := range b.res.Violations {
		n += v.Count
	}
	return n
}

// Count adds to an observation histogram.
func (b *B) Count(key string) { b.res.Hist[key]++ }

func (b *B) CountN(key string, n int64) { b.res.Hist[key] += n }

// NonTrivial records that the current case satisfied the property's
// non-triviality rule; identity is the hash given (usually of the input).
func (b *B) NonTrivial(h uint64) { b.ntSet[h] = struct{}{} }

func (b *B) NonTrivialStr(parts ...string) { b.ntSet[HashStr(parts...)] = struct{}{} }

// NonTrivialDistinct is for enumerations whose cases are distinct by construction.
func (b *B) NonTrivialDistinct() { b.res.NTByConstr++ }

func (b *B) Abstain()      { b.res.Abstained++ }
func (b *B) Inconclusive() { b.res.Inconclusive++ }

func (b *B) Sample(v any) {
	if len(b.res.Samples) < b.maxSamp {
		b.res.Samples = append(b.res.Samples, v)
	}
}

func (b *B) SetExtra(k string, v any) { b.res.Extra[k] = v }

// Violate records a violation of the property on the current case.
func (b *B) Violate(sig, detail string) {
	b.ViolateIn(sig, b.curIn, detail)
}

func (b *B) ViolateIn(sig, input, detail string) {
	v := b.res.Violations[sig]
	if v == nil {
		v = &VioAgg{Sig: sig}
		b.res.Violations[sig] = v
	}
	v.Count++
	if len(detail) > 2000 {
		detail = detail[:2000] + "…"
	}
	if len(input) > 8000 {
		input = input[:8000] + "…"
	}
	v.Witnesses = AddWitness(v.Witnesses, Witness{Ordinal: b.ordinal, Batch: b.Batch, Input: input, Detail: detail})
	if b.Only > 0 || b.Verbose {
		fmt.Printf("VIOLATED sig=%s\n  input=%q\n  detail=%s\n", sig, input, detail)
	}
}

// Finish writes the result file (and the non-trivial hash file next to it).
func (b *B) Finish(outPath string) error {
	b.res.Done = true
	if len(b.res.Samples) == 0 {
		b.res.Samples = b.autoSamples
	}
	hs := make([]uint64, 0, len(b.ntSet))
	for h := range b.ntSet {
		hs = append(hs, h)
	}
	sort.Slice(hs, func(i, j int) bool { return hs[i] < hs[j] })
	b.res.NTHashCount = len(hs)
	buf := make([]byte, 8*len(hs))
	for i, h := range hs {
		binary.LittleEndian.PutUint64(buf[8*i:], h)
	}
	if err := os.WriteFile(outPath+".nt", buf, 0o644); err != nil {
		return err
	}
	d, err := json.Marshal(&b.res)
	if err != nil {
		return err
	}
	return os.WriteFile(outPath, d, 0o644)
}

func ReadResult(outPath string) (*Result, error) {
	d, err := os.ReadFile(outPath)
	if err != nil {
		return nil, err
	}
	var r Result
	if err := json.Unmarshal(d, &r); err != nil {
		return nil, err
	}
	if !r.Done {
		return nil, fmt.Errorf("incomplete result")
	}
	nt, err := os.ReadFile(outPath + ".nt")
	if err == nil {
		r.NTHashes = make([]uint64, len(nt)/8)
		for i := range r.NTHashes {
			r.NTHashes[i] = binary.LittleEndian.Uint64(nt[8*i:])
		}
	}
	return &r, nil
}

// AddWitness keeps the three shortest witnesses (shortest first).
func AddWitness(ws []Witness, w Witness) []Witness {
	if len(ws) == 3 && len(w.Input) >= len(ws[2].Input) {
		return ws
	}
	ws = append(ws, w)
	sort.SliceStable(ws, func(i, j int) bool { return len(ws[i].Input) < len(ws[j].Input) })
	if len(ws) > 3 {
		ws = ws[:3]
	}
	return ws
}
