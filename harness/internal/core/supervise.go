package core

import (
	"context"
	"encoding/json"
	"fmt"
	"os"
	"os/exec"
	"path/filepath"
	"regexp"
	"runtime"
	"sort"
	"strconv"
	"strings"
	"sync"
	"syscall"
	"time"
)

// KnownFinding is one entry of /verif/known_findings.json.
type KnownFinding struct {
	ID        string `json:"id"`
	Property  string `json:"property"`
	Status    string `json:"status"` // open
	Signature string `json:"signature"`
	IsRegex   bool   `json:"signature_is_regex,omitempty"`
	Witness   string `json:"witness"`
	What      string `json:"what"`
	re        *regexp.Regexp
}

type KnownFile struct {
	Findings []*KnownFinding `json:"findings"`
	Fixed    []string        `json:"fixed"`
}

func LoadKnown(path string) (*KnownFile, error) {
	d, err := os.ReadFile(path)
	if err != nil {
		if os.IsNotExist(err) {
			return &KnownFile{}, nil
		}
		return nil, err
	}
	var k KnownFile
	if err := json.Unmarshal(d, &k); err != nil {
		return nil, fmt.Errorf("known_findings.json: %w", err)
	}
	for _, f := range k.Findings {
		if f.IsRegex {
			re, err := regexp.Compile("^(?:" + f.Signature + ")$")
			if err != nil {
				return nil, fmt.Errorf("known finding %s: %w", f.ID, err)
			}
			f.re = re
		}
	}
	return &k, nil
}

func (k *KnownFile) Match(prop, sig string) *KnownFinding {
	for _, f := range k.Findings {
		if f.Property != prop || f.Status != "open" {
			continue
		}
		if f.re != nil {
			if f.re.MatchString(sig) {
				return f
			}
		} else if f.Signature == sig {
			return f
		}
	}
	return nil
}

type SupOpts struct {
	Root  string // /verif
	Self  string // path of this binary
	Prop  string
	Tier  Tier
	Seed  uint64
	Procs int
}

type batchState struct {
	idx     int
	skip    []int64
	retries int
	hangs   int
}

type agg struct {
	mu           sync.Mutex
	evals        int64
	ntConstr     int64
	ntHashes     map[uint64]struct{}
	hist         map[string]int64
	vio          map[string]*VioAgg
	samples      []any
	abstained    int64
	inconclusive int64
	extra        map[string]any
	incomplete   []string
	notes        []string
}

func (a *agg) addVio(sig string, w Witness, n int64) {
	v := a.vio[sig]
	if v == nil {
		v = &VioAgg{Sig: sig}
		a.vio[sig] = v
	}
	v.Count += n
	v.Witnesses = AddWitness(v.Witnesses, w)
}

func (a *agg) merge(r *Result) {
	a.mu.Lock()
	defer a.mu.Unlock()
	a.evals += r.Evaluations
	a.ntConstr += r.NTByConstr
	for _, h := range r.NTHashes {
		a.ntHashes[h] = struct{}{}
	}
	for k, v := range r.Hist {
		a.hist[k] += v
	}
	for sig, v := range r.Violations {
		for i, w := range v.Witnesses {
			n := int64(0)
			if i == 0 {
				n = v.Count
			}
			a.addVio(sig, w, n)
		}
	}
	for _, s := range r.Samples {
		if len(a.samples) < 6 {
			a.samples = append(a.samples, s)
		}
	}
	a.abstained += r.Abstained
	a.inconclusive += r.Inconclusive
	for k, v := range r.Extra {
		if _, ok := a.extra[k]; !ok {
			a.extra[k] = v
		}
	}
}

var reFatal = regexp.MustCompile(`(?m)^(fatal error: .*|panic: .*)$`)
var reFrame = regexp.MustCompile(`(?m)^github\.com/gobuffalo/plush/v5[./]([^\s(]+(?:\([^)]*\))?[^\s(]*)\(`)

func fatalSig(log string) (string, string) {
	m := reFatal.FindString(log)
	if m == "" {
		return "fatal@?:process-died", ""
	}
	fn := "?"
	if i := strings.Index(log, m); i >= 0 {
		if fm := reFrame.FindStringSubmatch(log[i:]); fm != nil {
			fn = fm[1]
		}
	}
	return "fatal@" + fn + ":" + msgClass(strings.TrimPrefix(strings.TrimPrefix(m, "fatal error: "), "panic: ")), m
}

func tail(s string, n int) string {
	if len(s) > n {
		return s[len(s)-n:]
	}
	return s
}

// runChild runs one worker invocation; timedOut reports a watchdog kill.
func runChild(o *SupOpts, args []string, logPath string, limit time.Duration, env []string) (timedOut bool, err error) {
	ctx, cancel := context.WithTimeout(context.Background(), limit)
	defer cancel()
	cmd := exec.Command(o.Self, args...)
	lf, e := os.Create(logPath)
	if e != nil {
		return false, e
	}
	defer lf.Close()
	cmd.Stdout = lf
	cmd.Stderr = lf
	cmd.Env = append(os.Environ(), env...)
	if e := cmd.Start(); e != nil {
		return false, e
	}
	done := make(chan error, 1)
	go func() { done <- cmd.Wait() }()
	select {
	case err = <-done:
		return false, err
	case <-ctx.Done():
		cmd.Process.Signal(syscall.SIGQUIT)
		select {
		case <-done:
		case <-time.After(5 * time.Second):
			cmd.Process.Kill()
			<-done
		}
		return true, fmt.Errorf("watchdog")
	}
}

// Supervise runs all batches of a property and writes evidence; returns the exit code.
func Supervise(o *SupOpts) int {
	start := time.Now()
	p := Lookup(o.Prop)
	if p == nil {
		fmt.Fprintf(os.Stderr, "unknown property %s\n", o.Prop)
		return 2
	}
	known, err := LoadKnown(filepath.Join(o.Root, "known_findings.json"))
	if err != nil {
		fmt.Fprintln(os.Stderr, err)
		return 2
	}
	workDir := filepath.Join(o.Root, "work", o.Prop)
	os.RemoveAll(workDir)
	if err := os.MkdirAll(workDir, 0o755); err != nil {
		fmt.Fprintln(os.Stderr, err)
		return 2
	}
	nb := p.Batches(o.Tier)
	procs := o.Procs
	if procs <= 0 {
		procs = runtime.NumCPU()
	}
	if p.MaxProcs > 0 && procs > p.MaxProcs {
		procs = p.MaxProcs
	}
	if procs > nb {
		procs = nb
	}
	limitS := 180
	if o.Tier == Thorough {
		limitS = 1800
	}
	if p.BatchTimeoutS != nil {
		limitS = p.BatchTimeoutS(o.Tier)
	}
	a := &agg{ntHashes: map[uint64]struct{}{}, hist: map[string]int64{}, vio: map[string]*VioAgg{}, extra: map[string]any{}}

	jobs := make(chan *batchState, nb)
	for i := 0; i < nb; i++ {
		jobs <- &batchState{idx: i}
	}
	close(jobs)
	var wg sync.WaitGroup
	for w := 0; w < procs; w++ {
		wg.Add(1)
		go func() {
			defer wg.Done()
			for bs := range jobs {
				runBatch(o, p, bs, nb, workDir, time.Duration(limitS)*time.Second, a)
			}
		}()
	}
	wg.Wait()

	// ---- verdict
	distinct := a.ntConstr + int64(len(a.ntHashes))
	sigs := make([]string, 0, len(a.vio))
	for s := range a.vio {
		sigs = append(sigs, s)
	}
	sort.Strings(sigs)
	exit := 0
	newVio := 0
	knownSeen := map[string]any{}
	vioSummary := map[string]any{}
	os.RemoveAll(filepath.Join(o.Root, "replays", o.Prop)) // replay files of earlier runs are stale
	os.MkdirAll(filepath.Join(o.Root, "replays", o.Prop), 0o755)
	for _, s := range sigs {
		v := a.vio[s]
		w := v.Witnesses[0]
		vioSummary[s] = map[string]any{"count": v.Count, "witness": w.Input, "detail": w.Detail}
		if kf := known.Match(o.Prop, s); kf != nil {
			fmt.Printf("KNOWN-FINDING: property=%s %s [%s sig=%s count=%d witness=%q]\n", o.Prop, kf.What, kf.ID, s, v.Count, clip(w.Input, 120))
			knownSeen[kf.ID] = map[string]any{"sig": s, "count": v.Count, "witness": w.Input}
			continue
		}
		newVio++
		exit = 1
		rp := filepath.Join(o.Root, "replays", o.Prop, fmt.Sprintf("%016x.json", HashStr(s)))
		rd, _ := json.MarshalIndent(map[string]any{
			"property": o.Prop, "signature": s, "tier": o.Tier.String(), "seed": o.Seed,
			"nbatches": nb, "batch": w.Batch, "ordinal": w.Ordinal, "input": w.Input, "detail": w.Detail, "count": v.Count,
		}, "", " ")
		os.WriteFile(rp, rd, 0o644)
		fmt.Printf("VIOLATION property=%s replay=%s\n", o.Prop, rp)
		fmt.Printf("  signature: %s (count %d)\n  input: %q\n  detail: %s\n", s, v.Count, clip(w.Input, 400), clip(w.Detail, 600))
	}

	cov := map[string]any{
		"evaluations":          a.evals,
		"distinct_nontrivial":  distinct,
		"rule":                 p.Rule,
		"samples":              a.samples,
		"observed":             a.hist,
		"abstained":            a.abstained,
		"inconclusive":         a.inconclusive,
		"batches":              nb,
		"known_findings_seen":  knownSeen,
		"violation_signatures": vioSummary,
	}
	if p.Exhaustive != nil && p.Exhaustive(o.Tier) {
		cov["exhaustive"] = true
	}
	if len(a.incomplete) > 0 {
		cov["incomplete_batches"] = a.incomplete
	}
	if len(a.notes) > 0 {
		cov["notes"] = a.notes
	}
	for k, v := range a.extra {
		cov[k] = v
	}
	if p.Post != nil {
		p.Post(a.hist, cov)
	}
	ev := map[string]any{
		"property_id": o.Prop,
		"tier":        o.Tier.String(),
		"seed":        int64(o.Seed),
		"level":       p.Level,
		"coverage":    cov,
		"assumptions": p.Assume,
		"wall_s":      time.Since(start).Seconds(),
		"violations":  newVio,
	}
	if a.samples == nil {
		cov["samples"] = []any{}
	}
	d, _ := json.MarshalIndent(ev, "", " ")
	os.MkdirAll(filepath.Join(o.Root, "evidence"), 0o755)
	if err := os.WriteFile(filepath.Join(o.Root, "evidence", o.Prop+".json"), d, 0o644); err != nil {
		fmt.Fprintln(os.Stderr, err)
		return 2
	}
	fmt.Printf("%s %s seed=%d: %d evaluations, %d distinct non-trivial, %d abstained, %d inconclusive, %d known-finding signatures, %d new violation signatures, %.1fs\n",
		o.Prop, o.Tier, o.Seed, a.evals, distinct, a.abstained, a.inconclusive, len(knownSeen), newVio, time.Since(start).Seconds())
	if exit == 0 {
		if a.evals == 0 || distinct < 2 {
			fmt.Fprintf(os.Stderr, "BROKEN: check observed nothing (evaluations=%d distinct_nontrivial=%d)\n", a.evals, distinct)
			return 2
		}
		if len(a.incomplete) > 0 {
			fmt.Fprintf(os.Stderr, "BROKEN: incomplete batches %v\n", a.incomplete)
			return 2
		}
	}
	return exit
}

func clip(s string, n int) string {
	if len(s) > n {
		return s[:n] + "…"
	}
	return s
}

func runBatch(o *SupOpts, p *Prop, bs *batchState, nb int, workDir string, limit time.Duration, a *agg) {
	for {
		out := filepath.Join(workDir, fmt.Sprintf("b%d.json", bs.idx))
		jrn := filepath.Join(workDir, fmt.Sprintf("b%d.jrn", bs.idx))
		logp := filepath.Join(workDir, fmt.Sprintf("b%d.log", bs.idx))
		os.Remove(out)
		os.Remove(jrn)
		args := []string{"work", "-prop", o.Prop, "-tier", o.Tier.String(), "-seed", strconv.FormatUint(o.Seed, 10),
			"-batch", strconv.Itoa(bs.idx), "-nbatches", strconv.Itoa(nb), "-out", out, "-journal", jrn, "-root", o.Root}
		if len(bs.skip) > 0 {
			ss := []string{}
			for _, s := range bs.skip {
				ss = append(ss, strconv.FormatInt(s, 10))
			}
			args = append(args, "-skip", strings.Join(ss, ","))
		}
		var env []string
		if p.Env != nil {
			env = p.Env(o.Root, bs.idx)
		}
		timedOut, _ := runChild(o, args, logp, limit, env)
		if r, err := ReadResult(out); err == nil && !timedOut {
			a.merge(r)
			os.Remove(out)
			os.Remove(out + ".nt")
			os.Remove(jrn)
			return
		}
		// the worker died or was killed: the journal names the case
		ord, input, ok := ReadJournal(jrn)
		logb, _ := os.ReadFile(logp)
		logs := string(logb)
		if !ok {
			a.mu.Lock()
			a.incomplete = append(a.incomplete, fmt.Sprintf("batch %d: worker died before its first case: %s", bs.idx, tail(logs, 400)))
			a.mu.Unlock()
			return
		}
		w := Witness{Ordinal: ord, Batch: bs.idx, Input: input}
		if timedOut {
			// inconclusive until confirmed: re-run the journalled case alone, 3 times, 20 s each
			hung := 0
			for k := 0; k < 3; k++ {
				args1 := []string{"work", "-prop", o.Prop, "-tier", o.Tier.String(), "-seed", strconv.FormatUint(o.Seed, 10),
					"-batch", strconv.Itoa(bs.idx), "-nbatches", strconv.Itoa(nb), "-only", strconv.FormatInt(ord, 10), "-root", o.Root, "-quiet"}
				confirm := 20*time.Second + limit/10
				if p.ConfirmTimeoutS > 0 {
					confirm = time.Duration(p.ConfirmTimeoutS) * time.Second
				}
				to, _ := runChild(o, args1, logp+".confirm", confirm, nil)
				if to {
					hung++
				}
			}
			a.mu.Lock()
			if hung == 3 {
				w.Detail = "worker exceeded the batch watchdog and the journalled case alone exceeded its limit 3 times out of 3"
				a.addVio("watchdog@hang", w, 1)
				bs.hangs++
			} else {
				a.inconclusive++
				a.notes = append(a.notes, fmt.Sprintf("batch %d hit the %s watchdog at ordinal %d but the case alone finished (%d/3 slow): inconclusive, not a violation", bs.idx, limit, ord, hung))
			}
			a.mu.Unlock()
		} else {
			sig, msg := fatalSig(logs)
			w.Detail = msg + "\n" + tail(logs, 1500)
			a.mu.Lock()
			a.addVio(sig, w, 1)
			a.mu.Unlock()
		}
		bs.skip = append(bs.skip, ord)
		bs.retries++
		if bs.hangs >= 4 {
			// every confirmed hang costs the batch watchdog plus three confirmations: after four of them the
			// batch is given up (the check has failed anyway; the batch is listed as incomplete)
			a.mu.Lock()
			a.incomplete = append(a.incomplete, fmt.Sprintf("batch %d: given up after %d confirmed hangs", bs.idx, bs.hangs))
			a.mu.Unlock()
			return
		}
		if bs.retries > 25 {
			a.mu.Lock()
			a.incomplete = append(a.incomplete, fmt.Sprintf("batch %d: more than 25 worker deaths", bs.idx))
			a.mu.Unlock()
			return
		}
	}
}
