package core

import (
	"fmt"
	"regexp"
	"runtime"
	"strings"

	"github.com/gobuffalo/plush/v5/lexer"
)

// PanicInfo describes a recovered panic.
type PanicInfo struct {
	Value   string
	TopFunc string // innermost plush function on the stack at panic time
	Budget  bool   // lexer step budget overrun (H1): non-termination
	Class   string // normalised message class
	Stack   string
}

// Sig is the normalised symptom, e.g. "panic@plush.(*compiler).evalAccessIndex:reflect.Value.Index".
func (p *PanicInfo) Sig() string {
	if p.Budget {
		return "nontermination@" + p.TopFunc
	}
	return "panic@" + p.TopFunc + ":" + p.Class
}

// Guard runs f and converts a panic into a PanicInfo.
func Guard(f func()) (pi *PanicInfo) {
	defer func() {
		if r := recover(); r != nil {
			pi = classifyPanic(r)
		}
	}()
	f()
	return nil
}

const plushPath = "github.com/gobuffalo/plush/v5"

func classifyPanic(r any) *PanicInfo {
	pi := &PanicInfo{Value: fmt.Sprint(r)}
	if be, ok := r.(lexer.VerifBudgetExceeded); ok {
		pi.Budget = true
		pi.Value = fmt.Sprintf("lexer step budget exceeded: %d steps for %d input bytes", be.Steps, be.InputLen)
	}
	pcs := make([]uintptr, 64)
	n := runtime.Callers(3, pcs)
	frames := runtime.CallersFrames(pcs[:n])
	var sb strings.Builder
	seenPanic := false
	for {
		fr, more := frames.Next()
		fmt.Fprintf(&sb, "%s\n\t%s:%d\n", fr.Function, fr.File, fr.Line)
		if fr.Function == "runtime.gopanic" || strings.HasPrefix(fr.Function, "runtime.panic") || fr.Function == "runtime.sigpanic" || fr.Function == "runtime.goPanicIndex" {
			seenPanic = true
		}
		if pi.TopFunc == "" && strings.Contains(fr.Function, plushPath) {
			fn := strings.TrimPrefix(fr.Function, plushPath)
			fn = strings.TrimPrefix(fn, "/")
			fn = strings.TrimPrefix(fn, ".")
			if pi.Budget && (strings.HasPrefix(fn, "lexer.") || strings.HasSuffix(fn, ".nextToken")) {
				// for non-termination report the parser function driving the lexer
			} else {
				pi.TopFunc = fn
			}
		}
		if !more {
			break
		}
	}
	_ = seenPanic
	if pi.TopFunc == "" {
		pi.TopFunc = "?"
	}
	pi.Stack = sb.String()
	pi.Class = msgClass(pi.Value)
	return pi
}

var reReflect = regexp.MustCompile(`reflect(?:\.[A-Za-z]+)+`)
var reNum = regexp.MustCompile(`[-+]?\d+`)
var reHex = regexp.MustCompile(`0x[0-9a-f]+`)

func msgClass(m string) string {
	switch {
	case strings.Contains(m, "nil pointer dereference"):
		return "nil-deref"
	case strings.Contains(m, "index out of range"):
		return "index-out-of-range"
	case strings.Contains(m, "slice bounds out of range"):
		return "slice-bounds"
	case strings.Contains(m, "interface conversion"):
		return "interface-conversion"
	case strings.Contains(m, "assignment to entry in nil map"):
		return "nil-map-assign"
	case strings.Contains(m, "hash of unhashable type"):
		return "unhashable-key"
	case strings.Contains(m, "reflect: Call using"):
		return "reflect.Call:arg-type-mismatch"
	case strings.Contains(m, "lexer step budget"):
		return "budget"
	}
	if strings.Contains(m, "reflect") {
		all := reReflect.FindAllString(m, -1)
		// prefer the most specific API name (reflect.Value.X, reflect.Set ...)
		best := ""
		for _, a := range all {
			if len(a) > len(best) {
				best = a
			}
		}
		if best != "" {
			if strings.Contains(m, "unaddressable") {
				best += ":unaddressable"
			}
			if strings.Contains(m, "zero Value") {
				best += ":zero-Value"
			}
			if strings.Contains(m, "not assignable") {
				best += ":not-assignable"
			}
			return best
		}
	}
	m = reHex.ReplaceAllString(m, "H")
	m = reNum.ReplaceAllString(m, "N")
	if len(m) > 60 {
		m = m[:60]
	}
	return m
}

var reErrNum = regexp.MustCompile(`\d+`)
var reErrQuoted = regexp.MustCompile(`"[^"]*"|'[^']*'`)

// ErrClass normalises an error message for use in signatures.
func ErrClass(err error) string {
	if err == nil {
		return "nil"
	}
	m := err.Error()
	m = reHex.ReplaceAllString(m, "H")
	m = reErrQuoted.ReplaceAllString(m, "Q")
	m = reErrNum.ReplaceAllString(m, "N")
	if i := strings.IndexByte(m, '\n'); i >= 0 {
		m = m[:i]
	}
	if len(m) > 70 {
		m = m[:70]
	}
	return m
}
