package props

import (
	"fmt"
	"html/template"
	"strings"

	"github.com/gobuffalo/plush/v5"
	"github.com/gobuffalo/plush/v5/helpers/hctx"

	"verifharness/internal/core"
)

// C09 — names bound inside for / function / partial / contentOf / block-with-
// context scopes never leak or clobber. Reference: an environment chain.

var c09Kinds = []string{"for", "fn", "partial", "contentOf", "blockWith", "contentOf-replayed-in-for", "contentOf-replayed-in-fn", "contentOf-twice", "partial-without-data-twice", "partial-same-data-map-twice", "contentOf-without-data", "contentOf-default-block-without-data"}
var c09Names = []string{"a", "b", "c"}

type c09Gen struct {
	r        *core.Rng
	tok      int
	uid      int
	scopes   []map[string]string // environment chain (reference model)
	partials map[string]string
	exp      strings.Builder
	labels   map[string]bool
}

func (g *c09Gen) token(name string) string {
	g.tok++
	return fmt.Sprintf("%s%d", name, g.tok)
}

func (g *c09Gen) lookup(n string) (string, bool) {
	for i := len(g.scopes) - 1; i >= 0; i-- {
		if v, ok := g.scopes[i][n]; ok {
			return v, true
		}
	}
	return "", false
}

func (g *c09Gen) probe(where string) string {
	var sb strings.Builder
	for _, n := range c09Names {
		if !g.r.Chance(2, 3) {
			continue
		}
		fmt.Fprintf(&sb, "[%s=<%%= if (%s) { %%><%%= %s %%><%% } else { %%>∅<%% } %%>]", n, n, n)
		v, ok := g.lookup(n)
		if !ok {
			v = "∅"
		}
		fmt.Fprintf(&g.exp, "[%s=%s]", n, v)
	}
	return sb.String()
}

func (g *c09Gen) lets(level int) string {
	var sb strings.Builder
	for _, n := range c09Names {
		if !g.r.Chance(1, 3) {
			continue
		}
		v := g.token(n)
		// an if block is not a scope of its own: a let inside one binds in the scope around it
		switch g.r.Intn(6) {
		case 0:
			fmt.Fprintf(&sb, "<%% if (true) { %%><%% let %s = \"%s\" %%><%% } %%>", n, v)
			g.labels["let-inside-if-block"] = true
		case 1:
			fmt.Fprintf(&sb, "<%% if (false) { let %s = \"never\" } else { let %s = \"%s\" } %%>", n, n, v)
			g.labels["let-inside-else-block"] = true
		default:
			fmt.Fprintf(&sb, "<%% let %s = \"%s\" %%>", n, v)
		}
		if _, bound := g.lookup(n); bound {
			g.labels["shadowing-let"] = true
		} else {
			g.labels["fresh-let"] = true
		}
		g.scopes[len(g.scopes)-1][n] = v
	}
	return sb.String()
}

// seq emits probes/lets, then the construct chain shape[0:], then probes/lets.
func (g *c09Gen) seq(shape []string, level int) string {
	var sb strings.Builder
	sb.WriteString(g.probe("before"))
	sb.WriteString(g.lets(level))
	sb.WriteString(g.probe("after-let"))
	if len(shape) > 0 {
		sb.WriteString(g.construct(shape, level))
		// after the construct: nothing leaked, nothing clobbered
		sb.WriteString(g.probe("after-construct"))
		sb.WriteString(g.lets(level))
		sb.WriteString(g.probe("end"))
	}
	return sb.String()
}

func (g *c09Gen) binder() (string, string) {
	n := pick(g.r, []string{"a", "b", "c", "x"})
	_, bound := g.lookup(n)
	if bound {
		g.labels["binder-shadows-outer"] = true
	}
	if g.r.Chance(1, 8) {
		// bound to nil: the name is bound all the same, an outer value does not show through
		if bound {
			g.labels["nil-binding-shadows-outer"] = true
		}
		return n, c09Nil
	}
	return n, g.token(n)
}

// c09Nil stands for a nil binding in the model; probes print it like an unbound name.
const c09Nil = "∅"

// c09Lit is the source text of a bound value.
func c09Lit(v string) string {
	if v == c09Nil {
		return "nil"
	}
	return "\"" + v + "\""
}

func (g *c09Gen) construct(shape []string, level int) string {
	kind := shape[0]
	g.uid++
	id := g.uid
	g.labels["construct:"+kind] = true
	n, v := g.binder()
	// push scope with the construct's own binding
	g.scopes = append(g.scopes, map[string]string{n: v})
	defer func() { g.scopes = g.scopes[:len(g.scopes)-1] }()
	switch kind {
	case "for":
		g.exp.WriteString("{")
		body := g.seq(shape[1:], level+1)
		g.exp.WriteString("}")
		if v != c09Nil && g.r.Chance(1, 3) {
			// the same over an iterator (one element) instead of a list
			g.labels["for-over-an-iterator"] = true
			return fmt.Sprintf("<%%= for (%s) in once(%s) { %%>{%s}<%% } %%>", n, c09Lit(v), body)
		}
		return fmt.Sprintf("<%%= for (%s) in [%s] { %%>{%s}<%% } %%>", n, c09Lit(v), body)
	case "fn":
		if g.r.Chance(1, 3) {
			// a function without parameters still has its own scope
			delete(g.scopes[len(g.scopes)-1], n)
			g.labels["fn-without-parameters"] = true
			g.exp.WriteString("(")
			body := g.seq(shape[1:], level+1)
			g.exp.WriteString(")")
			return fmt.Sprintf("<%% let fn%d = fn() { %%>(%s)<%% } %%><%%= fn%d() %%>", id, body, id)
		}
		g.exp.WriteString("(")
		body := g.seq(shape[1:], level+1)
		g.exp.WriteString(")")
		return fmt.Sprintf("<%% let fn%d = fn(%s) { %%>(%s)<%% } %%><%%= fn%d(%s) %%>", id, n, body, id, c09Lit(v))
	case "contentOf-twice", "partial-without-data-twice", "partial-same-data-map-twice":
		// the same block / partial is rendered twice with different (or no)
		// data: the second rendering starts from the outer scope again and sees
		// nothing the first one bound
		n2, v2 := g.binder()
		for n2 == n {
			n2, v2 = g.binder()
		}
		snapR, snapTok, snapUID := *g.r, g.tok, g.uid
		saved := g.exp
		top := len(g.scopes) - 1
		render := func(scope map[string]string, open, close string) (string, string) {
			*g.r, g.tok, g.uid = snapR, snapTok, snapUID
			g.scopes[top] = scope
			g.exp = strings.Builder{}
			g.exp.WriteString(open)
			body := g.seq(shape[1:], level+1)
			g.exp.WriteString(close)
			return body, g.exp.String()
		}
		var src string
		var body1, body2, exp1, exp2 string
		if kind == "contentOf-twice" {
			body1, exp1 = render(map[string]string{n: v}, "«", "»")
			body2, exp2 = render(map[string]string{n2: v2}, "«", "»")
			src = fmt.Sprintf("<%% contentFor(\"c%d\") { %%>«%s»<%% } %%><%%= contentOf(\"c%d\", {%s: %s}) %%><%%= contentOf(\"c%d\", {%s: %s}) %%>", id, body1, id, n, c09Lit(v), id, n2, c09Lit(v2))
		} else if kind == "partial-same-data-map-twice" {
			// the data is a map that outlives the call: what the first rendering binds is not in it afterwards
			body1, exp1 = render(map[string]string{n: v}, "<", ">")
			body2, exp2 = render(map[string]string{n: v}, "<", ">")
			name := fmt.Sprintf("p%d", id)
			g.partials[name] = "<" + body1 + ">"
			src = fmt.Sprintf("<%% let opts%d = {%s: %s} %%><%%= partial(\"%s\", opts%d) %%><%%= partial(\"%s\", opts%d) %%>", id, n, c09Lit(v), name, id, name, id)
		} else {
			body1, exp1 = render(map[string]string{}, "<", ">")
			body2, exp2 = render(map[string]string{}, "<", ">")
			name := fmt.Sprintf("p%d", id)
			g.partials[name] = "<" + body1 + ">"
			src = fmt.Sprintf("<%%= partial(\"%s\") %%><%%= partial(\"%s\") %%>", name, name)
		}
		g.exp = saved
		if body1 != body2 {
			// the two generations diverged (should not happen): judge nothing here
			g.labels["generator-divergence"] = true
			return ""
		}
		g.exp.WriteString(exp1 + exp2)
		return src
	case "contentOf-replayed-in-for", "contentOf-replayed-in-fn":
		// the block is declared here and replayed inside another construct:
		// it runs in the scope it was declared in (plus its data), and the
		// construct around the replay continues in its own scope afterwards
		saved := g.exp
		g.exp = strings.Builder{}
		g.exp.WriteString("«")
		body := g.seq(shape[1:], level+1)
		g.exp.WriteString("»")
		bodyExp := g.exp.String()
		g.exp = saved
		dataScope := g.scopes[len(g.scopes)-1]
		ln, lv := g.binder()
		g.scopes[len(g.scopes)-1] = map[string]string{ln: lv}
		open, close := "{", "}"
		if kind == "contentOf-replayed-in-fn" {
			open, close = "(", ")"
		}
		g.exp.WriteString(open)
		pre := g.probe("before-replay") + g.lets(level+1)
		g.exp.WriteString(bodyExp)
		post := g.probe("after-replay") + g.lets(level+1) + g.probe("end-of-replaying-construct")
		g.exp.WriteString(close)
		g.scopes[len(g.scopes)-1] = dataScope
		call := fmt.Sprintf("<%%= contentOf(\"c%d\", {%s: %s}) %%>", id, n, c09Lit(v))
		decl := fmt.Sprintf("<%% contentFor(\"c%d\") { %%>«%s»<%% } %%>", id, body)
		if kind == "contentOf-replayed-in-for" {
			return decl + fmt.Sprintf("<%%= for (%s) in [%s] { %%>{%s%s%s}<%% } %%>", ln, c09Lit(lv), pre, call, post)
		}
		return decl + fmt.Sprintf("<%% let fn%d = fn(%s) { %%>(%s%s%s)<%% } %%><%%= fn%d(%s) %%>", id, ln, pre, call, post, id, c09Lit(lv))
	case "partial":
		name := fmt.Sprintf("p%d", id)
		g.exp.WriteString("<")
		body := g.seq(shape[1:], level+1)
		g.exp.WriteString(">")
		g.partials[name] = "<" + body + ">"
		return fmt.Sprintf("<%%= partial(\"%s\", {%s: %s}) %%>", name, n, c09Lit(v))
	case "contentOf":
		g.exp.WriteString("«")
		body := g.seq(shape[1:], level+1)
		g.exp.WriteString("»")
		return fmt.Sprintf("<%% contentFor(\"c%d\") { %%>«%s»<%% } %%><%%= contentOf(\"c%d\", {%s: %s}) %%>", id, body, id, n, c09Lit(v))
	case "contentOf-without-data", "contentOf-default-block-without-data":
		// no data: the block still runs in a scope of its own
		delete(g.scopes[len(g.scopes)-1], n)
		g.exp.WriteString("«")
		body := g.seq(shape[1:], level+1)
		g.exp.WriteString("»")
		if kind == "contentOf-default-block-without-data" {
			return fmt.Sprintf("<%%= contentOf(\"never%d\") { %%>«%s»<%% } %%>", id, body)
		}
		return fmt.Sprintf("<%% contentFor(\"c%d\") { %%>«%s»<%% } %%><%%= contentOf(\"c%d\") %%>", id, body, id)
	default: // blockWith
		g.exp.WriteString("‹")
		body := g.seq(shape[1:], level+1)
		g.exp.WriteString("›")
		return fmt.Sprintf("<%%= withCtx({%s: %s}) { %%>‹%s›<%% } %%>", n, c09Lit(v), body)
	}
}

func c09Ctx(partials map[string]string) *plush.Context {
	ctx := plush.NewContext()
	ctx.Set("withCtx", func(data map[string]interface{}, h plush.HelperContext) (template.HTML, error) {
		nc := h.New()
		for k, v := range data {
			nc.Set(k, v)
		}
		s, err := h.BlockWith(nc)
		return template.HTML(s), err
	})
	ctx.Set("once", func(v interface{}) plush.Iterator { return &sliceIter{items: []interface{}{v}} })
	ctx.Set("partialFeeder", func(n string) (string, error) {
		if s, ok := partials[n]; ok {
			return s, nil
		}
		return "", fmt.Errorf("no partial %s", n)
	})
	var _ hctx.Context = ctx
	return ctx
}

// c09Values: a name bound inside a construct must leave the same-named outer variable
// unchanged also when both values were made from one array with '+': the inner value
// must not share storage with the outer one.
func c09Values(b *core.B) {
	cases := []struct{ t, want string }{
		{`<% let a = [1, 2, 3] %><% let b = a + 4 %><% let f = fn() { let b = a + 5
 return b } %><%= f() %>|<%= b %>|<%= a %>`, "1235|1234|123"},
		{`<% let a = [1, 2, 3] %><% let b = a + 4 %><%= for (x) in [7] { %><% let b = a + x %><%= b %><% } %>|<%= b %>`, "1237|1234"},
		{`<% let b = spare + "y" %><%= withCtx({q: 1}) { %><% let b = spare + "z" %><%= b %><% } %>|<%= b %>|<%= len(spare) %>`, "abz|aby|2"},
		{`<% let a = [1] %><% let b = a + 2 %><% let c = b + 3 %><% let d = b + 4 %><%= c %>|<%= d %>|<%= b %>`, "123|124|12"},
		{`<% let acc = [] %><%= for (x) in [1, 2, 3] { %><% let mine = acc + x %><% let other = acc + 0 %><%= mine %>,<% } %>`, "1,2,3,"},
	}
	for _, c := range cases {
		if !b.Begin("values made with + : " + c.t) {
			continue
		}
		ctx := c09Ctx(map[string]string{})
		spare := make([]interface{}, 2, 8)
		spare[0], spare[1] = "a", "b"
		ctx.Set("spare", spare)
		res := render(b, c.t, ctx)
		b.NonTrivialStr(c.t)
		b.Count("arrays-made-with-plus-do-not-share-storage")
		if res.Pan != nil {
			continue
		}
		if res.Err != nil || res.Out != c.want {
			b.Violate("scope-violation|outer-value-changed|array-plus", fmt.Sprintf("want %q, got %s", c.want, res))
		}
	}
}

func c09Run(b *core.B) {
	if b.Batch == 0 {
		c09Values(b)
	}
	r := b.Rng(1)
	shapes := [][]string{}
	for _, a := range c09Kinds {
		shapes = append(shapes, []string{a})
		for _, c := range c09Kinds {
			shapes = append(shapes, []string{a, c})
			for _, d := range c09Kinds {
				shapes = append(shapes, []string{a, c, d})
			}
		}
	}
	reps := 40
	if b.Tier == core.Thorough {
		reps = 10000
	}
	var idx int64
	for rep := 0; rep < reps; rep++ {
		for _, sh := range shapes {
			idx++
			if !b.Mine(idx) {
				continue
			}
			g := &c09Gen{r: r, scopes: []map[string]string{{}}, partials: map[string]string{}, labels: map[string]bool{}}
			// two constructs in sequence at top level every third time (sibling scopes)
			src := g.seq(sh, 0)
			if rep%3 == 2 {
				src += g.construct(sh[:1], 0) + g.probe("after-sibling")
			}
			full := src
			if len(g.partials) > 0 {
				full += "\n-- partials: " + fmt.Sprint(g.partials)
			}
			if !b.Begin(full) {
				continue
			}
			res := render(b, src, c09Ctx(g.partials))
			if rep%5 == 0 {
				parts := g.partials
				renderAgain(b, src, func() *plush.Context { return c09Ctx(parts) }, res, "scope-program")
			}
			b.Count("shape:" + strings.Join(sh, ">"))
			for l := range g.labels {
				b.Count(l)
			}
			b.NonTrivialStr(full)
			if res.Pan != nil {
				continue
			}
			want := g.exp.String()
			cls := strings.Join(sh, ">")
			if res.Err != nil {
				b.Violate("scope-program-rejected|"+cls+"|"+core.ErrClass(res.Err), fmt.Sprintf("want %q, got error %v", want, res.Err))
				continue
			}
			if res.Out != want {
				b.Violate("scope-violation|"+c09Diff(want, res.Out)+"|"+cls, fmt.Sprintf("want %q\n got %q", want, res.Out))
			}
			if rep == 0 && idx%31 == 0 {
				b.Sample(map[string]any{"template": src, "partials": g.partials, "expected": want})
			}
		}
	}
}

// c09Diff classifies the first differing probe.
func c09Diff(want, got string) string {
	i := 0
	for i < len(want) && i < len(got) && want[i] == got[i] {
		i++
	}
	// back up to the probe start
	j := strings.LastIndex(want[:i], "[")
	if j < 0 {
		return "structure"
	}
	w := want[j:]
	if k := strings.Index(w, "]"); k >= 0 {
		w = w[:k+1]
	}
	if strings.Contains(w, "=∅") {
		return "name-leaked"
	}
	gpart := ""
	if j < len(got) {
		gpart = got[j:]
		if k := strings.Index(gpart, "]"); k >= 0 {
			gpart = gpart[:k+1]
		}
	}
	if strings.Contains(gpart, "=∅") {
		return "name-not-visible"
	}
	return "wrong-binding-seen"
}

func init() {
	core.Register(&core.Prop{
		ID:         "C09",
		Level:      "exploration",
		Rule:       "all 1110 nestings of depth 1-3 of {partial rendered twice with one data map held in a variable, for, user-function call (with and without parameters), partial with data, contentFor+contentOf with data, block helper running its block with a new context plus data, contentFor declared outside and replayed by contentOf inside a for body / inside a function body, one block rendered by two contentOf calls with different data, one partial rendered twice without data}; at every level random let statements (fresh and shadowing) and probes of the names a, b, c before, inside and after each construct, binders (loop variable, parameter, data key) drawn from names that may shadow outer ones, unique value tokens; 40 (quick) / 4000 (thorough) random placements per nesting, every third with a sibling construct. Oracle: an environment-chain reference model (construct pushes a scope, let binds innermost, lookup walks outward, exit pops) predicts every probe. Non-trivial = every program (distinct by hash).",
		Assume:     []string{"loops have one iteration (whether a let of iteration 1 is visible at the start of iteration 2 is unspecified)", "functions are called where they are defined, so static and dynamic visibility of outer names coincide", "plain assignment to outer variables is not generated"},
		Batches:    batchesQT(8, 32),
		Run:        c09Run,
		Exhaustive: func(core.Tier) bool { return false },
	})
}
