package props

import (
	"fmt"
	"html/template"
	"strings"

	"github.com/gobuffalo/plush/v5"
	"github.com/gobuffalo/plush/v5/helpers/hctx"

	"verifharness/internal/core"
)

// C02 — output = literal text verbatim + values of <%= %> tags in source order.

// literalScan is the reference for text without live tags: ok=false when the
// text contains a live opener (b = 0 or b >= 2 backslashes before "<%").
func literalScan(s string) (out string, ok bool) {
	var sb strings.Builder
	i := 0
	for i < len(s) {
		if s[i] == '<' && i+1 < len(s) && s[i+1] == '%' {
			b := 0
			for j := i - 1; j >= 0 && s[j] == '\\'; j-- {
				b++
			}
			if b != 1 {
				return "", false
			}
			// drop the escaping backslash already written
			cur := sb.String()
			sb.Reset()
			sb.WriteString(cur[:len(cur)-1])
			sb.WriteString("<%")
			i += 2
			continue
		}
		sb.WriteByte(s[i])
		i++
	}
	return sb.String(), true
}

var c02Alphabet = []byte{'<', '%', '>', '\\', '=', 'a', '"', '#', '\n', 0}

func c02Data() map[string]interface{} {
	return map[string]interface{}{
		"cap": func(h plush.HelperContext) (template.HTML, error) {
			s, err := h.Block()
			return template.HTML(s), err
		},
		"s_html":        template.HTML("<SILENT-HTML>"),
		"strfn":         func() string { return "SILENT-STR" },
		"htmlfn":        func() template.HTML { return "<SILENT-FN>" },
		"partialFeeder": func(n string) (string, error) { return "SILENT-PARTIAL", nil },
	}
}

func c02Ctx() *plush.Context { return plush.NewContextWith(c02Data()) }

// c02EntryPoints renders src through the other public entry points; all must
// agree with plush.Render.
func c02EntryPoints(b *core.B, src string, want R, which int) {
	var out string
	var err error
	name := ""
	pan := core.Guard(func() {
		switch which % 4 {
		case 0:
			name = "RenderR"
			out, err = plush.RenderR(strings.NewReader(src), c02Ctx())
		case 1:
			name = "BuffaloRenderer"
			helpers := map[string]interface{}{}
			data := c02Data()
			for _, k := range []string{"cap", "strfn", "htmlfn"} {
				helpers[k] = data[k]
				delete(data, k)
			}
			out, err = plush.BuffaloRenderer(src, data, helpers)
		case 2:
			name = "NewTemplate+Exec"
			var t *plush.Template
			t, err = plush.NewTemplate(src)
			if err == nil {
				out, err = t.Exec(c02Ctx())
			}
		default:
			name = "Parse+Clone+Exec"
			var t *plush.Template
			t, err = plush.Parse(src)
			if err == nil {
				out, err = t.Clone().Exec(c02Ctx())
			}
		}
	})
	b.Count("entry-point:" + name)
	if pan == nil && which%5 == 0 && want.Err == nil {
		// two renders through RenderR on one context: the first stores a block
		// whose literal text the second one emits; every template owns its text
		ctx := c02Ctx()
		lit := fmt.Sprintf("kept-literal-%d-%s", which, strings.Repeat("k", which%17))
		var o1, o2 string
		var e1, e2 error
		pan2 := core.Guard(func() {
			o1, e1 = plush.RenderR(strings.NewReader(src+"|<% contentFor(\"zz\") { %>"+lit+"<% } %><% let keepfn = fn() { %>F:"+lit+"<% } %>"), ctx)
			o2, e2 = plush.RenderR(strings.NewReader(strings.Repeat("another template of similar length ", 3+which%5)+"<%= contentOf(\"zz\") %>|<%= keepfn() %>"), ctx)
		})
		b.Count("entry-point:RenderR-twice-on-one-context")
		wantTail := lit + "|F:" + lit
		if pan2 != nil {
			b.Violate("entry-point|RenderR-twice|"+pan2.Sig(), pan2.Value)
		} else if e1 != nil || e2 != nil || o1 != want.Out+"|" || !strings.HasSuffix(o2, wantTail) {
			b.Violate("entry-points-disagree|RenderR-twice-on-one-context", fmt.Sprintf("first: %q %v (want %q)\nsecond: %q %v (want suffix %q)", o1, e1, want.Out, o2, e2, wantTail))
		}
	}
	if pan != nil {
		b.Violate("entry-point|"+name+"|"+pan.Sig(), pan.Value)
		return
	}
	if (err == nil) != (want.Err == nil) || out != want.Out {
		b.Violate("entry-points-disagree|"+name, fmt.Sprintf("plush.Render: %s\n%s: out=%q err=%v", want, name, out, err))
	}
}

type c02Gen struct {
	r       *core.Rng
	n       int
	classes map[string]bool
}

var c02TextAlpha = []string{"<", "%", ">", "\\", "=", "#", "\"", "'", "`", "{", "}", "(", ")", "\n", "\r", "\t", " ", "a", "é", "✓", "<%", "%>", "<%=", "b", "-", ".", "\x00", "h\x00i\x00", "\xff\xfe", "\xef\xbb\xbf"}

// text returns an intended literal text (what must appear in the output).
func (g *c02Gen) text() string {
	n := g.r.Range(1, 8)
	var sb strings.Builder
	for i := 0; i < n; i++ {
		sb.WriteString(pick(g.r, c02TextAlpha))
	}
	s := sb.String()
	// a backslash directly before a literal "<%" can not be denoted with the two escapes
	for strings.Contains(s, "\\<%") {
		s = strings.Replace(s, "\\<%", "\\ <%", -1)
	}
	return s
}

// encodeText prints intended text; followedByTag says a live tag comes next.
func encodeText(s string, followedByTag bool) string {
	e := strings.Replace(s, "<%", "\\<%", -1)
	if followedByTag && strings.HasSuffix(s, "\\") {
		e += "\\"
	}
	return e
}

func (g *c02Gen) strLit() (src, val string) {
	n := g.r.Range(0, 7)
	if g.r.Bool() {
		// back-quoted: raw, anything but a back quote
		var sb strings.Builder
		for i := 0; i < n; i++ {
			sb.WriteString(pick(g.r, []string{"a", "<", ">", "&", "%>", "<%", "<%=", "#", "\n", "\\", "\"", "'", "é", " ", "\\\"", "{", "}", "\t"}))
		}
		g.classes["lit:backquote"] = true
		return "`" + sb.String() + "`", sb.String()
	}
	var src2, val2 strings.Builder
	for i := 0; i < n; i++ {
		p := pick(g.r, []string{"a", "<", ">", "&", "%>", "<%", "<%=", "#", "\n", "\\", "Q", "'", "`", "é", " ", "{", "}"})
		if p == "Q" {
			src2.WriteString("\\\"")
			val2.WriteString("\"")
			continue
		}
		src2.WriteString(p)
		val2.WriteString(p)
	}
	s, v := src2.String(), val2.String()
	// abstention: a backslash immediately before the closing quote
	if strings.HasSuffix(s, "\\") {
		s += "z"
		v += "z"
	}
	g.classes["lit:doublequote"] = true
	return "\"" + s + "\"", v
}

// list generates a sequence of segments; returns source and expected output.
func (g *c02Gen) list(depth int, inBlock bool) (string, string) {
	n := g.r.Range(1, 5)
	var src, exp strings.Builder
	lastText := false
	for i := 0; i < n; i++ {
		k := g.r.Intn(10)
		if lastText && k < 3 {
			k = 3 + g.r.Intn(7)
		}
		switch {
		case k < 3: // text
			t := g.text()
			last := i == n-1 && !inBlock
			if !last && strings.HasSuffix(t, "\\\\") {
				t += " " // three or more backslashes before a live tag are not generated
			}
			src.WriteString(encodeText(t, !last))
			exp.WriteString(t)
			lastText = true
			g.classes["text"] = true
			if i == n-1 && inBlock {
				// the block's closing tag follows
			}
			continue
		case k == 3: // output tag
			if g.r.Bool() {
				v := g.r.Intn(1000)
				fmt.Fprintf(&src, "<%%= %d %%>", v)
				fmt.Fprintf(&exp, "%d", v)
				g.classes["out:int"] = true
			} else {
				s, v := g.strLit()
				src.WriteString("<%= raw(" + s + ") %>")
				exp.WriteString(v)
				g.classes["out:raw"] = true
			}
		case k == 4: // silent tag
			codes := []string{"1", `"SILENT-LIT"`, `raw("<SILENT-RAW>")`, "s_html", "strfn()", "htmlfn()", `partial("p")`, "let q = 1", "let q = 1 %><% q = 2", `[1, "SILENT-ARR"]`, "{a: 1}", "1 + 2", "true"}
			c := pick(g.r, codes)
			src.WriteString("<% " + c + " %>")
			g.classes["silent:"+map[bool]string{true: "in-block", false: "top"}[inBlock]] = true
		case k == 5: // comment tag
			c := pick(g.r, []string{" plain comment ", " with # hash ", " it's ", " \"quoted\" ", " <b>tags</b> ", "\nmulti\nline\n", " `bq` ", " a = 1; let x ", " unbalanced \" quote ", " 100% ", "", "a<", " x < y, y ><", " <% not a tag ", " <%= 1 ", "<", " \x00 "})
			src.WriteString("<%#" + c + "%>")
			g.classes["comment"] = true
		default:
			if depth <= 0 {
				src.WriteString("<%= 7 %>")
				exp.WriteString("7")
				break
			}
			bs, be := g.list(depth-1, true)
			g.n++
			switch g.r.Intn(10) {
			case 9:
				// a function whose body emits text and then returns a value
				fmt.Fprintf(&src, "<%% let f%d = fn() { %%>%s<%% return raw(\"R%d\") %%><%% } %%><%%= f%d() %%>", g.n, bs, g.n, g.n)
				exp.WriteString(be + fmt.Sprintf("R%d", g.n))
				g.classes["block:fn-with-return"] = true
			case 0:
				src.WriteString("<%= if (true) { %>" + bs + "<% } %>")
				exp.WriteString(be)
				g.classes["block:out-if"] = true
			case 1:
				es, _ := g.list(depth-1, true)
				src.WriteString("<%= if (false) { %>" + es + "<% } else { %>" + bs + "<% } %>")
				exp.WriteString(be)
				g.classes["block:out-else"] = true
			case 2:
				src.WriteString("<% if (true) { %>" + bs + "<% } %>")
				g.classes["block:silent-if"] = true
			case 3:
				src.WriteString("<%= for (i) in [1, 2] { %>" + bs + "<% } %>")
				exp.WriteString(be + be)
				g.classes["block:out-for"] = true
			case 4:
				src.WriteString("<% for (i) in [1, 2] { %>" + bs + "<% } %>")
				g.classes["block:silent-for"] = true
			case 5:
				fmt.Fprintf(&src, "<%% let f%d = fn() { %%>%s<%% } %%><%%= f%d() %%>", g.n, bs, g.n)
				exp.WriteString(be)
				g.classes["block:fn"] = true
			case 6:
				src.WriteString("<%= cap() { %>" + bs + "<% } %>")
				exp.WriteString(be)
				g.classes["block:helper"] = true
			case 7:
				fmt.Fprintf(&src, "<%% contentFor(\"c%d\") { %%>%s<%% } %%><%%= contentOf(\"c%d\") %%>", g.n, bs, g.n)
				exp.WriteString(be)
				g.classes["block:contentFor"] = true
			case 8:
				src.WriteString("<% cap() { %>" + bs + "<% } %>")
				g.classes["block:silent-helper"] = true
			}
		}
		lastText = false
	}
	return src.String(), exp.String()
}

// c02HeaderText: literal text and output tags that stand where only the head of a
// construct can stand are a syntax error; they are never dropped without a word.
func c02HeaderText(b *core.B) {
	for _, t := range []string{
		"A<%= for (%>LOST<%= 1 %>LOST2<% x) in xs { %>b<% } %>Z",
		"A<% for (x %>LOST<% ) in xs { %>b<% } %>Z",
		"A<%= for (x, %>LOST<% y) in xs { %>b<% } %>Z",
		"A<%= for (x) in xs %>LOST<% { %>b<% } %>Z",
		"A<%= if (%>LOST<% true) { %>b<% } %>Z",
		"A<% let f = fn(%>LOST<% a) { return a } %>Z",
	} {
		if !b.Begin("text inside a construct's head: " + t) {
			continue
		}
		ctx := plush.NewContext()
		ctx.Set("xs", []int{1, 2, 3})
		res := render(b, t, ctx)
		b.NonTrivialStr(t)
		b.Count("text-inside-a-head")
		if res.Pan == nil && res.Err == nil && !strings.Contains(res.Out, "LOST") {
			b.Violate("g1:literal-text-dropped|inside-a-head", fmt.Sprintf("rendered %q without an error: the literal text LOST is gone", res.Out))
		}
	}
}

// c02ClosedStore is a context of the caller's whose lookup of one name panics.
type c02ClosedStore struct{ *plush.Context }

func (s c02ClosedStore) Value(key interface{}) interface{} {
	if key == "session" {
		panic("store is closed")
	}
	return s.Context.Value(key)
}

func (s c02ClosedStore) Has(key string) bool {
	if key == "session" {
		panic("store is closed")
	}
	return s.Context.Has(key)
}

func (s c02ClosedStore) New() hctx.Context {
	return c02ClosedStore{Context: s.Context.New().(*plush.Context)}
}

// c02AbnormalEnd runs one render that writes some text and then ends badly: with an error,
// with a panic of the caller's own context that the caller recovers, inside a helper block,
// inside a partial. Whatever the next render produces is its own text and nothing else.
func c02AbnormalEnd(kind int) string {
	names := []string{"error-after-text", "panic-of-the-callers-context", "error-in-a-helper-block", "panic-in-a-partial", "parse-error-after-text"}
	kind %= len(names)
	func() {
		defer func() { _ = recover() }()
		switch kind {
		case 0:
			_, _ = plush.Render("LEFTOVER0 <%= 1 %> and <%= nosuchname %> tail", plush.NewContext())
		case 1:
			_, _ = plush.Render("LEFTOVER1 <%= 2 %> <%= session %> tail", c02ClosedStore{Context: plush.NewContext()})
		case 2:
			ctx := plush.NewContext()
			ctx.Set("wrap", func(h plush.HelperContext) (template.HTML, error) {
				s, err := h.Block()
				return template.HTML(s), err
			})
			_, _ = plush.Render("LEFTOVER2 <%= wrap() { %>inner <%= 3 %><%= nosuchname %><% } %> tail", ctx)
		case 3:
			ctx := c02ClosedStore{Context: plush.NewContext()}
			ctx.Context.Set("partialFeeder", func(string) (string, error) { return "PARTIAL <%= 4 %><%= session %>", nil })
			_, _ = plush.Render("LEFTOVER3 <%= partial(\"p\") %> tail", ctx)
		case 4:
			_, _ = plush.Render("LEFTOVER4 <%= 5 %> <% if ( %> tail", plush.NewContext())
		}
	}()
	return names[kind]
}

func c02Run(b *core.B) {
	if b.Batch == 0 && b.Begin("many pieces: 120000 iterations of text and values") {
		// the output is the concatenation of all of it, however much it is
		b.NonTrivialStr("many-pieces")
		b.Count("templates-with-more-than-100000-pieces")
		res := render(b, `<%= for (i) in between(0, 120001) { %>x<%= "y" %><% } %>|<%= for (i) in between(0, 60001) { %><%= i %>,<% } %>end`, plush.NewContext())
		if res.Pan == nil {
			var want strings.Builder
			want.WriteString(strings.Repeat("xy", 120000) + "|")
			for i := 1; i <= 60000; i++ {
				fmt.Fprintf(&want, "%d,", i)
			}
			want.WriteString("end")
			if res.Err != nil || res.Out != want.String() {
				b.Violate("g1:wrong-output|many-pieces", fmt.Sprintf("err=%v, %d bytes of output, want %d", res.Err, len(res.Out), want.Len()))
			}
		}
	}
	if b.Batch == 0 {
		c02HeaderText(b)
	}
	// G2: exhaustive tag-free strings
	maxLen := 6
	if b.Tier == core.Thorough {
		maxLen = 8
	}
	ctx := plush.NewContext()
	var idx int64
	buf := make([]byte, 0, maxLen)
	var rec func()
	rec = func() {
		idx++
		if b.Mine(idx) {
			s := string(buf)
			if exp, ok := literalScan(s); ok {
				if b.Begin(s) {
					r := render(b, s, ctx)
					cls := "g2:plain"
					if strings.Contains(s, "\\<%") {
						cls = "g2:escape"
						b.NonTrivialDistinct()
					} else if strings.Contains(s, "\\") && strings.Contains(s, "<") {
						cls = "g2:backslash-and-lt"
						b.NonTrivialDistinct()
					}
					b.Count(cls)
					if r.Pan == nil {
						if r.Err != nil {
							b.Violate("g2:tag-free-text-rejected:"+core.ErrClass(r.Err), fmt.Sprintf("expected %q, got error %v", exp, r.Err))
						} else if r.Out != exp {
							b.Violate("g2:tag-free-text-altered:"+c02Shape(s), fmt.Sprintf("expected %q, got %q", exp, r.Out))
						}
					}
				}
			}
		}
		if len(buf) == maxLen {
			return
		}
		for _, c := range c02Alphabet {
			buf = append(buf, c)
			rec()
			buf = buf[:len(buf)-1]
		}
	}
	rec()

	// G1: constructive segment lists
	n := 200000
	if b.Tier == core.Thorough {
		n = 4000000
	}
	r := b.Rng(1)
	for i := 0; i < n/b.NBatches; i++ {
		g := &c02Gen{r: r, classes: map[string]bool{}}
		src, exp := g.list(2, false)
		if !b.Begin(src) {
			continue
		}
		if i%61 == 7 {
			// the render before this one ended badly
			g.classes["after:"+c02AbnormalEnd(i/61)] = true
		}
		res := render(b, src, c02Ctx())
		if res.Pan == nil {
			c02EntryPoints(b, src, res, i)
		}
		for c := range g.classes {
			b.Count("g1:" + c)
		}
		if len(g.classes) > 1 {
			b.NonTrivialStr(src)
		}
		if res.Pan != nil {
			continue
		}
		if res.Err != nil {
			b.Violate("g1:error:"+c02Classes(g, res.Out, exp)+":"+core.ErrClass(res.Err), fmt.Sprintf("expected %q, got error %v", exp, res.Err))
		} else if res.Out != exp {
			b.Violate("g1:wrong-output:"+c02Classes(g, res.Out, exp), fmt.Sprintf("expected %q\n     got %q", exp, res.Out))
		}
		if i < 2 {
			b.Sample(map[string]any{"template": src, "expected": exp, "got": res.Out})
		}
	}
}

// c02Shape names the escape features of a deviating tag-free string.
func c02Shape(s string) string {
	f := []string{}
	if strings.HasPrefix(s, "\\<") {
		f = append(f, "starts-with-\\<")
	}
	if strings.HasSuffix(s, "\\<") {
		f = append(f, "ends-with-\\<")
	}
	if strings.Contains(s, "\\\\<") {
		f = append(f, "contains-\\\\<")
	}
	if strings.Contains(s, "\\<\\") {
		f = append(f, "contains-\\<\\")
	}
	if len(f) == 0 {
		return "other"
	}
	return strings.Join(f, "+")
}

// c02Classes explains a wrong output by what leaked into it.
func c02Classes(g *c02Gen, got, exp string) string {
	switch {
	case strings.Contains(got, "SILENT") && !strings.Contains(exp, "SILENT"):
		return "silent-tag-value-emitted"
	case strings.Contains(got, "comment") || strings.Contains(got, "quoted") || strings.Contains(got, "unbalanced"):
		return "comment-text-emitted"
	case len(got) < len(exp) && g.classes["comment"]:
		return "output-lost-with-comment-tag"
	case len(got) < len(exp):
		return "output-lost"
	case len(got) > len(exp):
		return "extra-output"
	}
	return "altered"
}

func init() {
	core.Register(&core.Prop{
		ID:    "C02",
		Level: "exploration",
		Rule: "G2: every string of length <= 6 (quick) / <= 8 (thorough) over {< % > \\ = a \" # LF NUL} in which the reference scanner finds no live tag opener must render to itself with only the escaping backslashes of \\<% removed (exhaustive; non-trivial = contains a backslash and a '<'). " +
			"G1: random segment lists Text|Out|Silent|Comment nested in if/else/for/fn/block-helper/contentFor bodies, text over a hostile alphabet encoded with the two escapes, output values ints and raw(string literal with arbitrary contents); expected output computed by the generator; non-trivial = at least two segment classes present (counted by template hash). Oracle: byte equality and err == nil.",
		Assume:     []string{"string literals never end in a backslash before the closing quote (abstention)", "intended text never has a backslash directly before a literal <% (not denotable with the two escapes)"},
		Batches:    batchesQT(32, 128),
		Run:        c02Run,
		Exhaustive: func(core.Tier) bool { return true },
	})
}
