package props

import (
	"fmt"
	"go/scanner"
	"go/token"
	"os"
	"path/filepath"
	"strconv"
	"strings"

	"github.com/gobuffalo/plush/v5"

	"verifharness/internal/core"
)

// C03 — parsing is total. Oracle: no panic, no lexer-step budget overrun
// (H1), no (nil program, nil error), no empty error message.

var c03Vocab = []string{
	"fn", "func", "let", "true", "false", "if", "else", "return", "for", "in", "continue", "break", "nil",
	"x", "a.b", "a-b", "1", "1.5", "1.2.3", `"s"`, "`s`", `"s`, "`s",
	"=", "==", "+", "-", "!", "!=", "/", "*", "<", "<=", ">", ">=", "~=", "&&", "||", "&", "|", "~", "%", "@",
	".", ",", ";", ":", "(", ")", "{", "}", "[", "]", "# c\n",
	"<%", "<%=", "<%#", "%>", "</p>",
}

var c03Framings = []struct{ name, pre, post string }{
	{"stmt", "<% ", " %>"},
	{"out", "<%= ", " %>"},
	{"stmt-unclosed", "<% ", ""},
	{"out-unclosed", "<%= ", ""},
	{"comment-unclosed", "<%# ", ""},
	{"nested-opener", "<% <%= ", " %> %>"},
	{"in-if", "<% if (true) { ", " } %>"},
	{"in-for", "<% for (x) in xs { ", " } %>"},
}

func c03Check(b *core.B, class, in string) bool {
	if !b.Begin(in) {
		return false
	}
	prog, err, pan := parseOnly(in)
	switch {
	case pan != nil:
		b.Count(class + ":" + map[bool]string{true: "nonterminating", false: "panic"}[pan.Budget])
		b.Violate(pan.Sig(), "parser.Parse: "+pan.Value+"\n"+clipStack(pan.Stack))
		return false
	case err != nil:
		b.Count(class + ":error")
		if strings.TrimSpace(err.Error()) == "" {
			b.Violate("empty-error-message", "parser.Parse returned an error with an empty message")
		}
	default:
		b.Count(class + ":ok")
		if prog == nil {
			b.Violate("nil-program-nil-error", "parser.Parse returned (nil, nil)")
		}
	}
	return true
}

// c03Template goes through the public constructor as well (used for the
// smaller families; the exhaustive family uses parser.Parse only).
func c03Template(b *core.B, class, in string) {
	if !c03Check(b, class, in) {
		return // skipped, or already reported as panicking / non-terminating
	}
	var t *plush.Template
	var err error
	pan := core.Guard(func() { t, err = plush.NewTemplate(in) })
	if pan != nil {
		// same fault as parser.Parse reported above; do not double count
		return
	}
	if err == nil && t == nil {
		b.ViolateIn("nil-template-nil-error", in, "plush.NewTemplate returned (nil, nil)")
	}
	if err != nil {
		c03Sentinel(b, in)
		// the other public entry points parse the same text: they must report an error too
		var o1, o2 string
		var e1, e2 error
		pan := core.Guard(func() {
			o1, e1 = plush.BuffaloRenderer(in, map[string]interface{}{}, nil)
			o2, e2 = plush.RenderR(strings.NewReader(in), plush.NewContext())
		})
		b.Count("entry-points-on-syntax-error")
		switch {
		case pan != nil:
			b.ViolateIn("entry-point|"+pan.Sig(), in, "BuffaloRenderer/RenderR on an input NewTemplate rejects: "+pan.Value)
		case e1 == nil || o1 != "":
			b.ViolateIn("entry-point|BuffaloRenderer-accepts", in, fmt.Sprintf("NewTemplate failed with %q but BuffaloRenderer returned (%q, %v)", err, o1, e1))
		case e2 == nil || o2 != "":
			b.ViolateIn("entry-point|RenderR-accepts", in, fmt.Sprintf("NewTemplate failed with %q but RenderR returned (%q, %v)", err, o2, e2))
		}
	}
	if err != nil && len(in) < 40 {
		// the same text through the cache: a rejected input must leave Parse usable
		var e1, e2, e3 error
		pan := core.Guard(func() {
			plush.CacheEnabled = true
			defer func() { plush.CacheEnabled = false }()
			_, e1 = plush.Parse(in)
			_, e2 = plush.Parse(in)
			_, e3 = plush.Parse("ok<%= 1 %>")
		})
		b.Count("cache-enabled-parse-of-rejected-input")
		switch {
		case pan != nil:
			b.ViolateIn("cached-parse|"+pan.Sig(), in, pan.Value)
		case e1 == nil || e2 == nil:
			b.ViolateIn("cached-parse|accepts", in, fmt.Sprintf("NewTemplate failed with %q but plush.Parse with the cache on returned %v, then %v", err, e1, e2))
		case e3 != nil:
			b.ViolateIn("cached-parse|poisoned", in, fmt.Sprintf("after the rejected input a good template fails: %v", e3))
		}
	}
	if err != nil && t != nil {
		// the template value handed back with the error must stay unusable:
		// parsing it again fails again, executing it returns the error
		var err2, err3 error
		var out string
		pan := core.Guard(func() {
			err2 = t.Parse()
			out, err3 = t.Exec(plush.NewContext())
		})
		switch {
		case pan != nil:
			b.ViolateIn("reuse-after-failed-parse|"+pan.Sig(), in, "Parse/Exec on the template returned together with a syntax error: "+pan.Value)
		case err2 == nil:
			b.ViolateIn("reuse-after-failed-parse|second-parse-succeeds", in, fmt.Sprintf("NewTemplate failed with %q but a second Parse() on the returned template reports success", err))
		case err3 == nil:
			b.ViolateIn("reuse-after-failed-parse|exec-succeeds", in, fmt.Sprintf("NewTemplate failed with %q but Exec on the returned template rendered %q", err, out))
		}
	}
}

func c03Run(b *core.B) {
	V := len(c03Vocab)
	k := 3
	if b.Tier == core.Thorough {
		k = 4
	}
	// (1) exhaustive sequences of length 0..k in every framing
	var idx int64
	seq := make([]int, 0, k)
	var rec func(depth int)
	var sb strings.Builder
	emit := func() {
		for fi, fr := range c03Framings {
			idx++
			if !b.Mine(idx) {
				continue
			}
			sb.Reset()
			sb.WriteString(fr.pre)
			for i, t := range seq {
				if i > 0 {
					sb.WriteByte(' ')
				}
				sb.WriteString(c03Vocab[t])
			}
			sb.WriteString(fr.post)
			if len(seq) <= 2 {
				c03Template(b, "seq/"+c03Framings[fi].name, sb.String())
			} else {
				c03Check(b, "seq/"+c03Framings[fi].name, sb.String())
			}
			b.NonTrivialDistinct()
		}
	}
	rec = func(depth int) {
		emit()
		if depth == k {
			return
		}
		for t := 0; t < V; t++ {
			seq = append(seq, t)
			rec(depth + 1)
			seq = seq[:len(seq)-1]
		}
	}
	rec(0)

	// (2) random token soup
	nSoup := 50000
	if b.Tier == core.Thorough {
		nSoup = 2000000
	}
	r := b.Rng(2)
	for i := 0; i < nSoup/b.NBatches; i++ {
		n := r.Range(1, 60)
		sb.Reset()
		inTag := false
		for j := 0; j < n; j++ {
			t := c03Vocab[r.Intn(V)]
			if r.Chance(1, 12) {
				t = pick(r, []string{"<p>", "text ", "\\<%", "\\\\<%", "\n", "é", "%>\n<%"})
			}
			if !inTag && r.Chance(1, 2) {
				t = pick(r, []string{"<% ", "<%= ", "<%# "})
				inTag = true
			}
			if t == "%>" {
				inTag = false
			}
			sb.WriteString(t)
			if r.Chance(3, 4) {
				sb.WriteByte(' ')
			}
		}
		s := sb.String()
		c03Template(b, "soup", s)
		b.NonTrivialStr(s)
	}

	// (3) byte-level mutations of a corpus
	corpus := c03Corpus()
	b.SetExtra("corpus_templates", len(corpus))
	nMut := 40
	if b.Tier == core.Thorough {
		nMut = 600
	}
	r = b.Rng(3)
	for ci, c := range corpus {
		if !b.Mine(int64(ci)) {
			continue
		}
		// truncate at every offset
		for cut := 0; cut <= len(c); cut++ {
			s := c[:cut]
			c03Template(b, "mut/truncate", s)
			b.NonTrivialStr(s)
		}
		for m := 0; m < nMut; m++ {
			s := mutateBytes(r, c)
			c03Template(b, "mut/random", s)
			b.NonTrivialStr(s)
		}
	}

	// (4) nesting ladders
	depths := []int{1, 2, 3, 8, 64, 256}
	if b.Tier == core.Thorough {
		depths = append(depths, 1024, 2048)
	}
	li := int64(0)
	for _, d := range depths {
		for _, lad := range c03Ladders(d) {
			li++
			if !b.Mine(li) {
				continue
			}
			c03Template(b, "ladder", lad)
			b.NonTrivialStr(lad)
		}
	}
	// (5) the same shapes 1.5 million deep: an error or a template, not a dead process;
	// a template that comes back is also executed and printed (both walk the tree)
	for _, lad := range c03DeepLadders(1500000) {
		li++
		if !b.Mine(li) {
			continue
		}
		if !b.Begin(fmt.Sprintf("deep ladder: %.40q... (%d bytes)", lad, len(lad))) {
			continue
		}
		b.Count("deep-ladder")
		b.NonTrivialStr(lad[:40], "deep")
		var t *plush.Template
		var err error
		pan := core.Guard(func() { t, err = plush.NewTemplate(lad) })
		if pan != nil {
			b.Violate("deep-ladder|"+pan.Sig(), pan.Value)
			continue
		}
		if err == nil && t != nil {
			b.Count("deep-ladder:parsed")
			if pan := core.Guard(func() { _, _ = t.Exec(plush.NewContext()) }); pan != nil {
				b.Violate("deep-ladder-exec|"+pan.Sig(), pan.Value)
			}
		} else {
			b.Count("deep-ladder:rejected")
		}
		c03Sentinel(b, lad[:40]+"...")
	}
}

// c03Sentinel: parsing is total for every text whatever was parsed before it. After an
// input that was rejected (too deep, malformed), an ordinary template parses and runs.
func c03Sentinel(b *core.B, after string) {
	const text = "a<%= 1 %>b<%= if (true) { %>c<% } %><% let x = [1, 2] %><%= x[1] %>"
	var out string
	var err error
	pan := core.Guard(func() {
		var t *plush.Template
		if t, err = plush.NewTemplate(text); err == nil {
			out, err = t.Exec(plush.NewContext())
		}
	})
	b.Count("ordinary-template-parsed-after-a-rejected-input")
	if pan != nil {
		b.ViolateIn("after-a-rejected-input|"+pan.Sig(), "first "+after+"  then "+text, pan.Value)
	} else if err != nil || out != "a1bc2" {
		b.ViolateIn("after-a-rejected-input|ordinary-template-fails", "first "+after+"  then "+text, fmt.Sprintf("out=%q err=%v", out, err))
	}
}

func mutateBytes(r *core.Rng, c string) string {
	bs := []byte(c)
	ops := r.Range(1, 3)
	for o := 0; o < ops; o++ {
		if len(bs) == 0 {
			bs = append(bs, '<')
			continue
		}
		p := r.Intn(len(bs))
		switch r.Intn(6) {
		case 0: // delete
			bs = append(bs[:p], bs[p+1:]...)
		case 1: // insert interesting byte
			ins := pick(r, []string{"<", "%", ">", "\\", "=", "#", "\"", "`", "{", "}", "(", ")", "[", "]", "\n", ".", "-", "<%", "%>", "<%=", "<%#", " ", "1", "a", ",", ":", "~", "!", "&", "|"})
			bs = append(bs[:p], append([]byte(ins), bs[p:]...)...)
		case 2: // replace
			bs[p] = byte(r.Intn(256))
			if bs[p] == 0 {
				bs[p] = '%'
			}
		case 3: // duplicate span
			q := p + r.Intn(len(bs)-p+1)
			span := append([]byte{}, bs[p:q]...)
			bs = append(bs[:q], append(span, bs[q:]...)...)
		case 4: // delete span
			q := p + r.Intn(len(bs)-p+1)
			if q-p > 12 {
				q = p + 12
			}
			bs = append(bs[:p], bs[q:]...)
		case 5: // swap two bytes
			q := r.Intn(len(bs))
			bs[p], bs[q] = bs[q], bs[p]
		}
		if len(bs) > 4000 {
			bs = bs[:4000]
		}
	}
	return string(bs)
}

func c03Ladders(d int) []string {
	rep := strings.Repeat
	out := []string{
		"<%= " + rep("(", d) + "1" + rep(")", d) + " %>",
		"<%= " + rep("(", d) + "1 %>",
		"<%= " + rep("[", d) + "1" + rep("]", d) + " %>",
		"<%= " + rep("[", d) + " %>",
		"<%= " + rep("{a: ", d) + "1" + rep("}", d) + " %>",
		"<%= " + rep("{a: ", d) + " %>",
		"<%= " + rep("!", d) + "true %>",
		"<%= " + rep("-", d) + "1 %>",
		"<%= x" + rep("[0]", d) + " %>",
		"<%= x" + rep("[0", d) + " %>",
		"<%= f" + rep("(", d) + rep(")", d) + " %>",
		"<%= " + rep("f(", d) + "1" + rep(")", d) + " %>",
		"<%= " + rep("f(", d) + " %>",
		"<%= a" + rep(".b", d) + " %>",
		"<%= a" + rep(".b()", d) + " %>",
		"<%= a" + rep(".b[0]", d) + " %>",
		"<% " + rep("if (true) { ", d) + rep(" } ", d) + "%>",
		"<% " + rep("if (true) { ", d) + "%>",
		"<% if (a) { } " + rep("else if (b) { } ", d) + "else { } %>",
		"<% " + rep("for (x) in xs { ", d) + rep(" } ", d) + "%>",
		"<% " + rep("for (x) in xs { ", d) + "%>",
		"<% let f = " + rep("fn() { return ", d) + "1" + rep(" }", d) + " %>",
		"<% let f = " + rep("fn() { ", d) + "%>",
		rep("<% ", d),
		rep("<%= ", d),
		rep("<% if (true) { %>", d),
		rep("<% } %>", d),
		rep("%>", d),
		"<%= 1 " + rep("+ 1 ", d) + "%>",
		"<%= 1 " + rep("+ (1 ", d) + "%>",
		"<%= " + rep("1 + (", d) + "1" + rep(")", d) + " %>",
		"<%= \"" + rep("\\\"", d) + " %>",
		"<%# " + rep("<%# ", d) + "%>",
		rep("\\", d) + "<% 1 %>",
		rep("\\<%", d),
		"<% " + rep("let a = ", d) + "1 %>",
		"<% " + rep("return ", d) + "1 %>",
		"<% " + rep("{", d) + " %>",
		"<% " + rep("}", d) + " %>",
		"<% " + rep("else ", d) + " %>",
		"<% " + rep("x = ", d) + "1 %>",
		"<% " + rep("# c\n", d) + "1 %>",
		"<% " + rep("# c\n\n", d) + "%>",
		// an index after something that is itself such a path
		"<%= " + rep("(", d) + "a" + rep(")[0].b", d) + " %>",
		"<%= " + rep("f(", d) + "a" + rep(")[0].b", d) + " %>",
		"<%= " + rep("[", d) + "a" + rep("][0].b", d) + " %>",
		"<%= a" + rep("()[0].b", d) + " %>",
		// a loop head whose iterable is a chain of calls
		"<%= for (x) in a" + rep(".f()", d) + " { %>x<% } %>",
		"<%= for (x) in a" + rep(".f()[0]", d) + " { %>x<% } %>",
		"<%= for (x) in " + rep("f(", d) + "a" + rep(")", d) + " { %>x<% } %>",
	}
	return out
}

// c03DeepLadders: the shapes whose parse (or evaluation, or printing) recurses
// once per repetition, at a depth that no stack survives.
func c03DeepLadders(d int) []string {
	rep := strings.Repeat
	return []string{
		"<%= " + rep("(", d) + "1" + rep(")", d) + " %>",
		"<%= " + rep("(", d),
		"<%= " + rep("[", d) + " %>",
		"<%= " + rep("{a: ", d) + " %>",
		"<%= " + rep("!", d) + "true %>",
		"<%= x" + rep("[0]", d) + " %>",
		"<%= f" + rep("()", d) + " %>",
		"<%= a" + rep(".b", d) + " %>",
		"<%= 1 " + rep("+ 1 ", d) + "%>",
		"<% " + rep("if (true) { ", d) + "%>",
		"<% let f = " + rep("fn() { return ", d) + "1 %>",
		"<% " + rep("# c\n", d) + "1 %>",
		"<% " + rep("x = ", d) + "1 %>",
		"<% " + rep("return ", d) + "1 %>",
		rep("<% ", 2*d),
		rep("<%", 2*d) + " 1 %>",
	}
}

var c03CorpusCache []string

// c03Corpus extracts every Go string literal containing a plush tag from the
// repository's own test files, plus a few hand-written multi-construct
// templates. Read at run time from /repo.
func c03Corpus() []string {
	if c03CorpusCache != nil {
		return c03CorpusCache
	}
	seen := map[string]bool{}
	out := []string{}
	add := func(s string) {
		if !seen[s] && len(s) < 1500 {
			seen[s] = true
			out = append(out, s)
		}
	}
	files, _ := filepath.Glob(core.RepoDir() + "/*_test.go")
	more, _ := filepath.Glob(core.RepoDir() + "/*/*_test.go")
	files = append(files, more...)
	more, _ = filepath.Glob(core.RepoDir() + "/helpers/*/*_test.go")
	files = append(files, more...)
	for _, f := range files {
		src, err := os.ReadFile(f)
		if err != nil {
			continue
		}
		fset := token.NewFileSet()
		file := fset.AddFile(f, fset.Base(), len(src))
		var s scanner.Scanner
		s.Init(file, src, nil, 0)
		for {
			_, tok, lit := s.Scan()
			if tok == token.EOF {
				break
			}
			if tok == token.STRING {
				if v, err := strconv.Unquote(lit); err == nil && strings.Contains(v, "<%") {
					add(v)
				}
			}
		}
	}
	for _, s := range []string{
		"<p><%= \"a\" + 1 %></p>\n<% let a = [1, 2, \"x\"] %><% for (i, v) in a { %><%= i %>:<%= v %>,<% } %>",
		"<% let h = {a: 1, \"b\": [1,2], c: {d: `x`}} %><%= h[\"a\"] %><%= h.c %>",
		"<% let f = fn(x, y) { if (x > y) { return x } else if (x == y) { return 0 } return y } %><%= f(1, 2) %>",
		"<%= partial(\"p.html\", {x: 1}) %><% contentFor(\"c\") { %>C<% } %><%= contentOf(\"c\", {y: 2}) %>",
		"<%# comment %>\\<%= esc %>\\\\<%= 1 %># not a comment<% # comment\n let z = 1 %>",
		"<%= if (a && !b || c == nil) { %>T<% } else { %>F<% } %><% for (x) in range(1, 3) { if (x == 2) { continue } %><%= x %><% } %>",
		"<%= a.B.C[0].D(1, \"x\").E[k] ~= \"^f\" %><% a.b = 1 %><% a[0] = 2 %><% a = a + 1 %>",
	} {
		add(s)
	}
	c03CorpusCache = out
	return out
}

func init() {
	core.Register(&core.Prop{
		ID:    "C03",
		Level: "exploration",
		Rule: "inputs = (1) every sequence of 0..k lexemes (k=3 quick, 4 thorough) over a " + fmt.Sprint(len(c03Vocab)) +
			"-lexeme vocabulary in 8 tag framings, enumerated exhaustively; (2) random token soup of 1..60 lexemes; (3) every truncation plus random byte mutations of all template literals found in /repo/**/*_test.go; (4) nesting ladders of 50 shapes to depth 256 (2048 thorough); (5) 16 such shapes 1.5 million deep, parsed and, when a template comes back, executed (the worker stack limit is 256 MB, so unbounded recursion kills the worker and is reported as a process-level finding). " +
			"Each input is given to parser.Parse (and plush.NewTemplate for 2-4) under recover with the H1 lexer-step budget. Every input reaches the parser, so non-trivial = distinct input string (enumerated inputs are distinct by construction, random ones are counted by hash).",
		Assume:     []string{"H1 budget 64*len+4096 lexer steps is far above what a terminating parse needs (max observed ratio on the repo's templates: 1.6)"},
		Batches:    batchesQT(32, 128),
		Run:        c03Run,
		Exhaustive: func(core.Tier) bool { return true },
	})
}
