package props

import (
	"errors"
	"fmt"
	"html/template"
	"math"
	"reflect"
	"time"

	"github.com/gobuffalo/plush/v5"
)

// ---- fixture types -------------------------------------------------------

// T is the struct fixture. All methods are total (nil-safe, never panic), so
// any panic observed while using them is the engine's.
type T struct {
	Name   string
	N      int
	Tags   []string
	M      map[string]int
	Next   *T
	Any    interface{}
	hidden int
}

func (t T) Label() string { return "L:" + t.Name }
func (t *T) PLabel() string {
	if t == nil {
		return "PL:<nil>"
	}
	return "PL:" + t.Name
}
func (t T) Add(a, b int) int { return a + b }
func (t T) Self() T          { return t }
func (t *T) PSelf() *T       { return t }
func (t T) Fail() (string, error) {
	return "", errors.New("T.Fail")
}
func (t T) Strs() []string { return append([]string{}, t.Tags...) }

type htmlerFix struct{ s string }

func (h htmlerFix) HTML() template.HTML { return template.HTML(h.s) }

type stringerFix struct{ s string }

func (s stringerFix) String() string { return s.s }

type countIter struct{ n, max int }

func (c *countIter) Next() interface{} {
	if c.n >= c.max {
		return nil
	}
	c.n++
	return c.n
}

func newT(name string) T {
	return T{Name: name, N: 7, Tags: []string{"t0", "t1"}, M: map[string]int{"k": 1}, Any: "any"}
}

// Kind is one entry of the value-kind pool.
type Kind struct {
	Name string
	Make func() interface{}
}

// Kinds is the value-kind pool K. Fresh values per case: index writes mutate.
var Kinds = []Kind{
	{"nil", func() interface{} { return nil }},
	{"bool_t", func() interface{} { return true }},
	{"bool_f", func() interface{} { return false }},
	{"int0", func() interface{} { return 0 }},
	{"int1", func() interface{} { return 1 }},
	{"intneg", func() interface{} { return -1 }},
	{"intmax", func() interface{} { return math.MaxInt }},
	{"int8", func() interface{} { return int8(3) }},
	{"int16", func() interface{} { return int16(3) }},
	{"int32", func() interface{} { return int32(3) }},
	{"int64", func() interface{} { return int64(3) }},
	{"uint", func() interface{} { return uint(3) }},
	{"uint8", func() interface{} { return uint8(3) }},
	{"uint16", func() interface{} { return uint16(3) }},
	{"uint32", func() interface{} { return uint32(3) }},
	{"uint64", func() interface{} { return uint64(3) }},
	{"float32", func() interface{} { return float32(2.5) }},
	{"float64", func() interface{} { return 2.5 }},
	{"float0", func() interface{} { return 0.0 }},
	{"str_empty", func() interface{} { return "" }},
	{"str_a", func() interface{} { return "a" }},
	{"str_hostile", func() interface{} { return "<b>&'\"\xff[(" }},
	{"html_empty", func() interface{} { return template.HTML("") }},
	{"html_i", func() interface{} { return template.HTML("<i>") }},
	{"htmler", func() interface{} { return htmlerFix{"<u>"} }},
	{"ints_nil", func() interface{} { return []int(nil) }},
	{"ints_empty", func() interface{} { return []int{} }},
	{"ints3", func() interface{} { return []int{10, 20, 30} }},
	{"strs", func() interface{} { return []string{"a", "b"} }},
	{"ifaces", func() interface{} { return []interface{}{1, "a", nil} }},
	{"arr3", func() interface{} { return [3]int{1, 2, 3} }},
	{"pints", func() interface{} { return &[]int{1, 2} }},
	{"parr", func() interface{} { return &[2]string{"x", "y"} }},
	{"msi", func() interface{} { return map[string]interface{}{"a": 1, "b": "x"} }},
	{"mss", func() interface{} { return map[string]string{"a": "x"} }},
	{"mis", func() interface{} { return map[int]string{1: "one"} }},
	{"mii", func() interface{} { return map[interface{}]interface{}{"a": 1, 2: "b"} }},
	{"map_nil", func() interface{} { return map[string]int(nil) }},
	{"strct", func() interface{} { return newT("s") }},
	{"pstrct", func() interface{} { t := newT("p"); return &t }},
	{"nilp", func() interface{} { return (*T)(nil) }},
	{"ppstrct", func() interface{} { t := newT("pp"); p := &t; return &p }},
	{"fn0", func() interface{} { return func() int { return 5 } }},
	{"fn1", func() interface{} { return func(i int) int { return i + 1 } }},
	{"fnv", func() interface{} { return func(xs ...string) string { return fmt.Sprint(len(xs)) } }},
	{"fn_nil", func() interface{} { return (func())(nil) }},
	{"iter", func() interface{} { return plush.Iterator(&countIter{max: 3}) }},
	{"time", func() interface{} { return time.Date(2020, 1, 2, 3, 4, 5, 0, time.UTC) }},
	{"ptime", func() interface{} { t := time.Date(2020, 1, 2, 3, 4, 5, 0, time.UTC); return &t }},
	{"stringer", func() interface{} { return stringerFix{"str<"} }},
	{"chan", func() interface{} { return make(chan int) }},
	{"complex", func() interface{} { return complex(1, 2) }},
	{"rune", func() interface{} { return 'x' }},
	{"iface_slice_nil", func() interface{} { return []interface{}(nil) }},
	{"error", func() interface{} { return errors.New("boom") }},
	// comparable by type, not comparable (hashable) by value
	{"struct_holding_slice", func() interface{} { return struct{ V interface{} }{[]int{1}} }},
	{"array_holding_map", func() interface{} { return [1]interface{}{map[string]int{"a": 1}} }},
	{"iface_key_map", func() interface{} { return map[interface{}]string{1: "one", "k": "v"} }},
	{"named_string", func() interface{} { return namedStr("ns") }},
	{"pmap", func() interface{} { return &map[string]int{"a": 1} }},
	{"reflect_value", func() interface{} { return reflect.ValueOf("rv<") }},
	{"with_id", func() interface{} { return withID{ID: 7} }},
	{"with_slug", func() interface{} { return &withSlug{Slug: "sl ug"} }},
	{"with_zero_id", func() interface{} { return withID{} }},
	{"str_cjk", func() interface{} { return "這是一個很長的中文字符串用來測試截斷功能" }},
	{"vz", func() interface{} { return vzFix{N: 1} }},
	{"ptime_nil", func() interface{} { return (*time.Time)(nil) }},
	{"stringer_nilptr", func() interface{} { return (*stringerFix)(nil) }},
	{"embeds_nil", func() interface{} { return embedsFix{} }},
	{"stringers", func() interface{} { return []fmt.Stringer{stringerFix{"s0"}} }},
	{"pstrs", func() interface{} { return &[]string{"p0", "p1"} }},
	// wrappers with an Interface() method around falsy values: the wrapper itself is a value like any other
	{"reflect_value_empty", func() interface{} { return reflect.ValueOf("") }},
	{"reflect_value_false", func() interface{} { return reflect.ValueOf(false) }},
	{"nullable_nil", func() interface{} { return nullableFix{} }},
	// maps keyed by arrays (an index that is a slice is not such a key, whatever its length)
	{"map_arr_key", func() interface{} { return map[[2]int]string{{1, 2}: "a"} }},
	{"map_iface_arr_key", func() interface{} { return map[[2]interface{}]string{{1, "x"}: "a"} }},
	{"map_parr_key", func() interface{} { return map[*[2]int]bool{} }},
	// named types around false / "": values like any other (truthy), in every position
	{"named_bool_false", func() interface{} { return namedBool(false) }},
	{"named_str_empty", func() interface{} { return namedStr("") }},
	{"named_html_empty", func() interface{} { return template.JS("") }},
	// String() / HTML() promoted from an embedded interface that is nil: printing the value calls them
	{"embeds_nil_stringer", func() interface{} { return struct{ fmt.Stringer }{} }},
	{"embeds_nil_htmler", func() interface{} { return struct{ plush.HTMLer }{} }},
	// Interface() / Next() promoted from an embedded interface that is nil
	{"embeds_nil_interfaceable", func() interface{} { return struct{ c04Interfaceable }{} }},
	{"embeds_nil_iterator", func() interface{} { return struct{ plush.Iterator }{} }},
	// what pathFor looks for: ToPath / ToParam, Slug / ID fields (also nil, also promoted from a nil pointer)
	{"pathable", func() interface{} { return pathableFix{"/px/1"} }},
	{"pathable_nilptr", func() interface{} { return (*pathableFix)(nil) }},
	{"paramable", func() interface{} { return paramableFix{K: "k 1"} }},
	{"with_slug_nil", func() interface{} { return withSlug{} }},
	{"embeds_nil_id", func() interface{} { return embedsIDFix{} }},
}

// nullableFix is shaped like the nulls.* wrappers: Interface() gives the wrapped value
type nullableFix struct{ v interface{} }

func (n nullableFix) Interface() interface{} { return n.v }

type c04Interfaceable interface{ Interface() interface{} }

type pathableFix struct{ p string }

func (p pathableFix) ToPath() string { return p.p }

type paramableFix struct{ K string }

func (p paramableFix) ToParam() string { return p.K }

// embedsIDFix promotes the ID field of a nil *withID
type embedsIDFix struct{ *withID }

// vzFix: its pointer method sorts after all its value methods
type vzFix struct{ N int }

func (v vzFix) A() string  { return "A" }
func (v *vzFix) Z() string { return "Z" }

// embedsFix promotes the fields and methods of a nil *T
type embedsFix struct{ *T }

type withID struct{ ID int }
type withSlug struct{ Slug interface{} }

type namedStr string
type namedBool bool

// SmallKinds is an 8-kind subset for the deeper tuples.
var SmallKinds = []string{"nil", "int1", "str_a", "bool_t", "float64", "ints3", "msi", "pstrct"}

func kindByName(n string) Kind {
	for _, k := range Kinds {
		if k.Name == n {
			return k
		}
	}
	panic("no kind " + n)
}

// kindCtx builds a fresh context holding every kind as v_<name>.
func kindCtx() *plush.Context {
	ctx := plush.NewContext()
	for _, k := range Kinds {
		ctx.Set("v_"+k.Name, k.Make())
	}
	return ctx
}
