package props

import (
	"encoding/json"
	"fmt"
	"html/template"
	"math"
	"reflect"
	"strings"
	"unicode/utf8"

	"github.com/gobuffalo/plush/v5"
	"github.com/gobuffalo/plush/v5/helpers/encoders"
	"github.com/gobuffalo/plush/v5/helpers/escapes"
	"github.com/gobuffalo/plush/v5/helpers/hctx"
	ptext "github.com/gobuffalo/plush/v5/helpers/text"

	"verifharness/internal/core"
)

// C20 — truncate bound, escaping completeness, JSON fidelity.

func runePrefix(p, s []rune) bool {
	if len(p) > len(s) {
		return false
	}
	for i := range p {
		if p[i] != s[i] {
			return false
		}
	}
	return true
}

func c20Truncate(b *core.B, s string, size int, trail string, viaTemplate bool) {
	var out string
	if viaTemplate {
		ctx := plush.NewContext()
		ctx.Set("s", s)
		ctx.Set("size", size)
		ctx.Set("trail", trail)
		res := render(b, "<%= raw(truncate(s, {size: size, trail: trail})) %>", ctx)
		if res.Pan != nil {
			return
		}
		if res.Err != nil {
			b.Violate("truncate-template-error|"+core.ErrClass(res.Err), res.Err.Error())
			return
		}
		out = res.Out
	} else {
		pan := core.Guard(func() { out = ptext.Truncate(s, hctx.Map{"size": size, "trail": trail}) })
		c20Keep(b, fmt.Sprintf("Truncate(%q, %d, %q)", s, size, trail), out)
		if pan != nil {
			b.Violate(pan.Sig(), pan.Value)
			return
		}
	}
	rs, rt := []rune(s), []rune(trail)
	if len(rs) <= size {
		if out != s {
			b.Violate("truncate|short-string-altered", fmt.Sprintf("s=%q has %d <= %d characters but came back as %q", s, len(rs), size, out))
		}
		return
	}
	if !strings.HasSuffix(out, trail) {
		b.Violate("truncate|trail-missing", fmt.Sprintf("s=%q size=%d trail=%q -> %q", s, size, trail, out))
		return
	}
	p := out[:len(out)-len(trail)]
	if !runePrefix([]rune(p), rs) {
		b.Violate("truncate|not-a-prefix", fmt.Sprintf("s=%q size=%d trail=%q -> %q: %q is not a prefix of s", s, size, trail, out, p))
		return
	}
	if !strings.HasPrefix(s, p) {
		b.Violate("truncate|splits-a-character", fmt.Sprintf("s=%q size=%d trail=%q -> %q", s, size, trail, out))
		return
	}
	limit := size
	if len(rt) > limit {
		limit = len(rt)
	}
	if n := len([]rune(out)); n > limit {
		b.Violate("truncate|too-long", fmt.Sprintf("s=%q size=%d trail=%q -> %q has %d characters, bound is max(size, len(trail)) = %d", s, size, trail, out, n, limit))
	}
}

func c20HTML(b *core.B, s string) {
	var out string
	var err error
	pan := core.Guard(func() { out, err = escapes.HTMLEscape(s, nil) })
	c20Keep(b, fmt.Sprintf("HTMLEscape(%q)", s), out)
	if pan != nil {
		b.Violate(pan.Sig(), pan.Value)
		return
	}
	if err != nil {
		b.Violate("htmlEscape|error", err.Error())
		return
	}
	if why := c01ModelFree(out, nil); why != "" {
		b.Violate("htmlEscape|incomplete", fmt.Sprintf("htmlEscape(%q) = %q: %s", s, out, why))
	}
}

// jsUnescapedHazard scans with backslash pairing.
func jsUnescapedHazard(out string) string {
	for i := 0; i < len(out); {
		r, w := utf8.DecodeRuneInString(out[i:])
		switch r {
		case '\\':
			// an escape: skip the escaped character
			_, w2 := utf8.DecodeRuneInString(out[i+w:])
			if i+w >= len(out) {
				return "trailing backslash"
			}
			i += w + w2
			continue
		case '<', '>', '&', '=':
			return fmt.Sprintf("raw %q at %d", r, i)
		case '\'', '"':
			return fmt.Sprintf("unescaped quote at %d", i)
		case '\n', '\r', ' ', ' ':
			return fmt.Sprintf("unescaped line break %U at %d", r, i)
		}
		i += w
	}
	return ""
}

func c20JS(b *core.B, s string) {
	var out string
	pan := core.Guard(func() { out = escapes.JSEscape(s) })
	c20Keep(b, fmt.Sprintf("JSEscape(%q)", s), out)
	if pan != nil {
		b.Violate(pan.Sig(), pan.Value)
		return
	}
	if why := jsUnescapedHazard(out); why != "" {
		b.Violate("jsEscape|incomplete", fmt.Sprintf("jsEscape(%q) = %q: %s", s, out, why))
	}
}

func c20Raw(b *core.B, s string) {
	ctx := plush.NewContext()
	ctx.Set("s", s)
	res := render(b, "[<%= raw(s) %>]", ctx)
	if res.Pan != nil {
		return
	}
	if res.Err != nil || res.Out != "["+s+"]" {
		b.Violate("raw|not-byte-identical", fmt.Sprintf("raw(%q) rendered %s", s, res))
	}
}

func c20JSONVal(r *core.Rng, d int) interface{} {
	k := r.Intn(8)
	if d <= 0 && k >= 6 {
		k = r.Intn(6)
	}
	switch k {
	case 0:
		return nil
	case 1:
		return r.Bool()
	case 2:
		return float64(r.Intn(2001) - 1000)
	case 3:
		return pick(r, []float64{0, 0.5, -2.25, 1e21, 1e-7, 123456789.125, math.MaxFloat64, -math.SmallestNonzeroFloat64})
	case 4, 5:
		sv := pick(r, []string{"", "plain", "<b>", "a&b", "x>y", "  ", "q\"uote", "back\\slash", "é✓", "</script>", "line\nbreak", "tab\t", "\u0000\u001f", "'single'"})
		switch r.Intn(6) {
		case 0:
			// a string by another type name is encoded like a string (what raw() and other helpers hand on)
			return template.HTML(sv)
		case 1:
			return namedStr(sv)
		}
		return sv
	case 6:
		n := r.Range(0, 3)
		a := make([]interface{}, n)
		for i := range a {
			a[i] = c20JSONVal(r, d-1)
		}
		return a
	default:
		n := r.Range(0, 3)
		m := map[string]interface{}{}
		for i := 0; i < n; i++ {
			m[pick(r, []string{"k", "<key>", "a&b", "", "é", "k2"})] = c20JSONVal(r, d-1)
		}
		return m
	}
}

// A result is a value: what a helper returned stays what it was, whatever is called later.
// c20Keep remembers a result and a copy of its bytes; c20KeptCheck compares them.
type c20KeptResult struct{ what, got, copy string }

var c20Kept []c20KeptResult

func c20Keep(b *core.B, what, got string) {
	if len(got) == 0 {
		return
	}
	c20Kept = append(c20Kept, c20KeptResult{what, got, string(append([]byte(nil), got...))})
	if len(c20Kept) >= 64 {
		c20KeptCheck(b)
	}
}

func c20KeptCheck(b *core.B) {
	for _, k := range c20Kept {
		b.Count("results-looked-at-again-after-later-calls")
		if k.got != k.copy {
			b.Violate("result-changed-by-later-calls|"+strings.SplitN(k.what, "(", 2)[0], fmt.Sprintf("%s returned %q; after up to 64 later calls the same string reads %q", k.what, k.copy, k.got))
			break
		}
	}
	c20Kept = c20Kept[:0]
}

// c20JSONKept: two results held in variables of one template.
func c20JSONKept(b *core.B, va, vb interface{}) {
	ctx := plush.NewContext()
	ctx.Set("a", va)
	ctx.Set("b", vb)
	res := render(b, "<% let x = toJSON(a) %><% let y = toJSON(b) %><% let z = toJSON([b, a]) %><%= x %>\x01<%= y %>", ctx)
	if res.Pan != nil || res.Err != nil {
		return
	}
	parts := strings.Split(res.Out, "\x01")
	if len(parts) != 2 {
		b.Violate("toJSON|kept-results", fmt.Sprintf("%q", res.Out))
		return
	}
	for i, v := range []interface{}{va, vb} {
		var back interface{}
		if err := json.Unmarshal([]byte(parts[i]), &back); err != nil || !reflect.DeepEqual(normJSON(back), normJSON(v)) {
			b.Violate("toJSON|result-changed-by-later-calls", fmt.Sprintf("toJSON(a), toJSON(b) kept in variables, a third call made, then printed: a = %#v, b = %#v, printed %q", va, vb, res.Out))
			return
		}
	}
}

func c20JSON(b *core.B, v interface{}, viaTemplate bool) {
	var out string
	if viaTemplate {
		ctx := plush.NewContext()
		ctx.Set("v", v)
		res := render(b, "<%= toJSON(v) %>", ctx)
		if res.Pan != nil {
			return
		}
		if res.Err != nil {
			b.Violate("toJSON|template-error", res.Err.Error())
			return
		}
		out = res.Out
	} else {
		var err error
		pan := core.Guard(func() {
			h, e := encoders.ToJSON(v)
			out, err = string(h), e
		})
		c20Keep(b, fmt.Sprintf("ToJSON(%#v)", v), out)
		if pan != nil {
			b.Violate(pan.Sig(), pan.Value)
			return
		}
		if err != nil {
			b.Violate("toJSON|error", err.Error())
			return
		}
	}
	if !json.Valid([]byte(out)) {
		b.Violate("toJSON|invalid-json", fmt.Sprintf("%#v -> %q", v, out))
		return
	}
	var back interface{}
	if err := json.Unmarshal([]byte(out), &back); err != nil {
		b.Violate("toJSON|does-not-decode", err.Error())
		return
	}
	if !reflect.DeepEqual(normJSON(back), normJSON(v)) {
		b.Violate("toJSON|round-trip-differs", fmt.Sprintf("%#v -> %q -> %#v", v, out, back))
		return
	}
	if strings.ContainsAny(out, "<>&") {
		b.Violate("toJSON|raw-html-special", fmt.Sprintf("%#v -> %q", v, out))
	}
}

// normJSON makes empty and nil collections comparable.
func normJSON(v interface{}) interface{} {
	switch t := v.(type) {
	case []interface{}:
		out := make([]interface{}, len(t))
		for i := range t {
			out[i] = normJSON(t[i])
		}
		return out
	case map[string]interface{}:
		out := map[string]interface{}{}
		for k, x := range t {
			out[k] = normJSON(x)
		}
		return out
	case template.HTML:
		return string(t)
	case namedStr:
		return string(t)
	}
	return v
}

func c20Run(b *core.B) {
	var idx int64
	mine := func() bool { idx++; return b.Mine(idx) }
	// truncate: exhaustive short strings
	alpha := []string{"a", "é", "́", "\xff"}
	trails := []string{"", ".", "…", "...", "éé", "12345678"}
	var strs []string
	var rec func(cur string, n int)
	rec = func(cur string, n int) {
		strs = append(strs, cur)
		if n == 0 {
			return
		}
		for _, a := range alpha {
			rec(cur+a, n-1)
		}
	}
	rec("", 5)
	for _, s := range strs {
		for size := -2; size <= 8; size++ {
			for _, tr := range trails {
				if !mine() || !b.Begin(fmt.Sprintf("truncate(%q, size=%d, trail=%q)", s, size, tr)) {
					continue
				}
				c20Truncate(b, s, size, tr, idx%16 == 0)
				if len([]rune(s)) > size {
					b.NonTrivialDistinct()
				}
				b.Count("truncate:exhaustive")
			}
		}
	}
	r := b.Rng(2)
	n := 200000
	if b.Tier == core.Thorough {
		n = 20000000
	}
	pool := []string{"a", "b", " ", "é", "✓", "́", "‍", "😀", "\xff", "\xc3", "\xe2\x82", "<", "&"}
	for i := 0; i < n/b.NBatches; i++ {
		var sb strings.Builder
		for j := r.Range(0, 64); j > 0; j-- {
			sb.WriteString(pool[r.Intn(len(pool))])
		}
		var tb strings.Builder
		for j := r.Range(0, 8); j > 0; j-- {
			tb.WriteString(pool[r.Intn(len(pool))])
		}
		s, size, tr := sb.String(), r.Range(-2, 70), tb.String()
		if !b.Begin(fmt.Sprintf("truncate(%q, size=%d, trail=%q)", s, size, tr)) {
			continue
		}
		c20Truncate(b, s, size, tr, i%64 == 0)
		if len([]rune(s)) > size {
			b.NonTrivialStr(s, fmt.Sprint(size), tr)
		}
		b.Count("truncate:random")
	}
	// escapes: all strings of length <= 3 over a hostile alphabet
	halpha := []string{"<", ">", "&", "'", "\"", "\\", "=", "\n", "\r", " ", " ", "a", "/", "`", "\x00", "+"}
	var hs []string
	var rec2 func(cur string, n int)
	rec2 = func(cur string, n int) {
		hs = append(hs, cur)
		if n == 0 {
			return
		}
		for _, a := range halpha {
			rec2(cur+a, n-1)
		}
	}
	rec2("", 3)
	for _, s := range hs {
		if !mine() || !b.Begin(fmt.Sprintf("escapes(%q)", s)) {
			continue
		}
		c20HTML(b, s)
		c20JS(b, s)
		c20Raw(b, s)
		b.NonTrivialDistinct()
		b.Count("escapes:exhaustive")
	}
	for i := 0; i < n/8/b.NBatches; i++ {
		var sb strings.Builder
		for j := r.Range(0, 40); j > 0; j-- {
			if r.Bool() {
				sb.WriteString(halpha[r.Intn(len(halpha))])
			} else {
				sb.WriteByte(byte(r.Intn(255) + 1))
			}
		}
		s := sb.String()
		if !b.Begin(fmt.Sprintf("escapes(%q)", s)) {
			continue
		}
		c20HTML(b, s)
		c20JS(b, s)
		c20Raw(b, s)
		b.NonTrivialStr(s)
		b.Count("escapes:random")
	}
	// toJSON
	for i := 0; i < n/8/b.NBatches; i++ {
		v := c20JSONVal(r, 4)
		if !b.Begin(fmt.Sprintf("toJSON(%#v)", v)) {
			continue
		}
		c20JSON(b, v, i%4 == 0 && v != nil)
		b.NonTrivialStr(fmt.Sprintf("%#v", v))
		b.Count("toJSON")
		if i%8 == 1 {
			if w := c20JSONVal(r, 3); v != nil && w != nil {
				c20JSONKept(b, v, w)
				b.Count("toJSON:two-results-kept-in-one-template")
			}
		}
	}
	c20KeptCheck(b)
}

func init() {
	core.Register(&core.Prop{
		ID:         "C20",
		Level:      "exploration",
		Rule:       "truncate: every string of length <= 5 over {a, é, U+0301, 0xff} x size in [-2, 8] x 6 trails (exhaustive), random strings of length <= 64 over ASCII / multi-byte / combining / emoji / invalid UTF-8 x size in [-2, 70] x trails of length <= 8, called directly and through a template; predicates: at most size characters => unchanged, otherwise a byte prefix of s ending on a character boundary + trail and at most max(size, len(trail)) characters. htmlEscape / jsEscape / raw: every string of length <= 3 over a 16-symbol hostile alphabet (exhaustive) plus random byte strings: no raw < > ' \" and every & opens an entity; no < > & = and no quote or line break (LF, CR, U+2028, U+2029) outside a backslash escape; raw(s) byte-identical through a template. toJSON: values from a recursive generator (nil, bool, finite floats incl. extremes, strings with < > & U+2028 quotes control characters, arrays, string-keyed maps, depth <= 4), directly and through a template: json.Valid, decodes back to the value, no raw < > &. Results are values: every result of a direct call is looked at again after up to 64 later calls (byte-identical to a copy made at once), and two toJSON results kept in variables of one template decode to their values after a third call. Non-trivial for truncate = the string is longer than size.",
		Assume:     []string{"a character is a Unicode code point as counted by []rune conversion (invalid bytes count one each)", "entity-agnostic reading of 'contains none of < > & ' \"': & may only open an entity"},
		Batches:    batchesQT(16, 64),
		Run:        c20Run,
		Exhaustive: func(core.Tier) bool { return true },
	})
}
