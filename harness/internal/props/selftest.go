package props

import (
	"fmt"
	"os"
	"time"

	"github.com/gobuffalo/plush/v5"

	"verifharness/internal/core"
)

// S00 — self-test of the machinery, not a property of plush. It plants one of
// each kind of event the supervisor must turn into a violation and is run by
// `./check.sh --selftest` (and by setup), which fails unless exactly the
// expected signatures are reported:
//
//	batch 0: a recovered panic inside the engine call and a wrong output;
//	batch 1: the worker process dies (os.Exit) in the middle of a case: the
//	         journal must name the case and the batch must be resumed;
//	batch 2: the case never returns: watchdog, confirmed by re-running it alone.
func s00Run(b *core.B) {
	switch b.Batch {
	case 0:
		if b.Begin("planted: panic under recover") {
			pi := core.Guard(func() {
				var t *plush.Template
				_, _ = t.Exec(plush.NewContext()) // nil template: nil dereference inside plush
			})
			if pi != nil {
				b.Violate("selftest:"+pi.Sig(), pi.Value)
			}
			b.NonTrivialStr("a")
		}
		if b.Begin("planted: wrong output") {
			r := render(b, "<%= 1 + 1 %>", plush.NewContext())
			if r.Out != "3" {
				b.Violate("selftest:wrong-output", fmt.Sprintf("want 3 got %q", r.Out))
			}
			b.NonTrivialStr("b")
		}
		if b.Begin("not planted: correct output") {
			r := render(b, "<%= 1 + 1 %>", plush.NewContext())
			if r.Out != "2" {
				b.Violate("selftest:engine-broken", r.String())
			}
			b.NonTrivialStr("c")
		}
	case 1:
		for i := 0; i < 5; i++ {
			if !b.Begin(fmt.Sprintf("case %d of the dying batch", i)) {
				continue
			}
			if i == 2 {
				fmt.Fprintln(os.Stderr, "fatal error: planted process death")
				os.Exit(3)
			}
			b.NonTrivialStr(fmt.Sprint("d", i))
		}
	case 2:
		for i := 0; i < 3; i++ {
			if !b.Begin(fmt.Sprintf("case %d of the hanging batch", i)) {
				continue
			}
			if i == 1 {
				time.Sleep(time.Hour)
			}
			b.NonTrivialStr(fmt.Sprint("h", i))
		}
	}
}

func init() {
	core.Register(&core.Prop{
		ID:              "S00",
		Level:           "other",
		Rule:            "self-test: planted panic, wrong output, process death and hang must each be reported",
		Batches:         func(core.Tier) int { return 3 },
		Run:             s00Run,
		BatchTimeoutS:   func(core.Tier) int { return 3 },
		ConfirmTimeoutS: 1,
	})
}
