package props

import (
	"errors"
	"fmt"
	"html/template"
	"io/fs"
	"sort"
	"strings"

	"github.com/gobuffalo/plush/v5"
	"github.com/gobuffalo/plush/v5/helpers/hctx"
	"github.com/gobuffalo/plush/v5/helpers/helptest"

	"verifharness/internal/core"
)

// C04 — evaluation is total: a template that parses, executed with ordinary
// Go data, returns output or an error, never a panic.

var c04Ops = []string{"+", "-", "*", "/", "<", "<=", ">", ">=", "==", "!=", "~=", "&&", "||"}

func c04Callees() map[string]interface{} {
	return map[string]interface{}{
		"c_0":               func() string { return "r" },
		"c_s":               func(s string) string { return s },
		"c_i":               func(i int) int { return i },
		"c_b":               func(x bool) bool { return x },
		"c_f":               func(f float64) float64 { return f },
		"c_any":             func(x interface{}) string { return fmt.Sprintf("%T", x) },
		"c_pt":              func(t *T) string { return t.PLabel() },
		"c_t":               func(t T) string { return t.Label() },
		"c_is":              func(xs []int) int { return len(xs) },
		"c_ii":              func(a, b int) int { return a + b },
		"c_si":              func(s string, i int) string { return s },
		"c_m":               func(m map[string]interface{}) int { return len(m) },
		"c_sm":              func(s string, m map[string]interface{}) string { return s },
		"c_h":               func(h plush.HelperContext) string { return fmt.Sprint(h.HasBlock()) },
		"c_sh":              func(s string, h plush.HelperContext) string { return s },
		"c_smh":             func(s string, m map[string]interface{}, h plush.HelperContext) string { return s },
		"c_hi":              func(h hctx.HelperContext) string { return "hi" },
		"c_ph":              func(h *plush.HelperContext) string { return "ph" },
		"c_vs":              func(xs ...string) string { return strings.Join(xs, ",") },
		"c_vi":              func(xs ...int) int { return len(xs) },
		"c_vany":            func(xs ...interface{}) int { return len(xs) },
		"c_svs":             func(s string, xs ...string) string { return s },
		"c_err":             func() (string, error) { return "", errors.New("c_err") },
		"c_nil":             func() (string, error) { return "ok", nil },
		"c_void":            func(i int) {},
		"c_2ret":            func() (int, string) { return 1, "x" },
		"c_fn":              func(f func() int) int { return 1 },
		"c_hm":              func(m hctx.Map) int { return len(m) },
		"c_mh":              func(m hctx.Map, h hctx.HelperContext) int { return len(m) },
		"c_errNilEmbedded":  func() (string, error) { return "", c04ErrNilEmbedded{} },
		"c_errUnwrapPanics": func() (string, error) { return "", c04ErrOdd{how: "unwrap"} },
		"c_errErrorPanics":  func() (string, error) { return "", c04ErrOdd{how: "error"} },
		"c_errIsPanics":     func() (string, error) { return "", c04ErrOdd{how: "is"} },
		"c_errSelfUnwrap":   func() (string, error) { return "", c04ErrOdd{how: "self"} },
		"cap": func(h plush.HelperContext) (template.HTML, error) {
			s, err := h.Block()
			return template.HTML(s), err
		},
		"c_again": func(h plush.HelperContext) (template.HTML, error) {
			fn, ok := h.Value("contentFor:a").(func(hctx.Map) (template.HTML, error))
			if !ok {
				return "", errors.New("nothing stored")
			}
			return fn(nil)
		},
		"c_customhc": func(h customHC) string {
			if h.HelperContext == nil {
				return "nil"
			}
			return fmt.Sprint(h.HasBlock())
		},
	}
}

// c04ErrNilEmbedded has Error and Unwrap promoted from an embedded pointer that is nil.
type c04ErrNilEmbedded struct{ *fs.PathError }

// c04ErrOdd is an error one of whose methods panics.
type c04ErrOdd struct{ how string }

func (e c04ErrOdd) Error() string {
	if e.how == "error" {
		panic("Error() of the caller's type panics")
	}
	return "odd error"
}
func (e c04ErrOdd) Unwrap() error {
	if e.how == "unwrap" {
		panic("Unwrap() of the caller's type panics")
	}
	if e.how == "self" {
		return e
	}
	return nil
}
func (e c04ErrOdd) Is(error) bool {
	if e.how == "is" {
		panic("Is() of the caller's type panics")
	}
	return false
}

// c04SelfL gives a list that holds the value again.
type c04SelfL struct{}

func (v c04SelfL) Interface() interface{} { return []interface{}{"x", v} }

type c04HoldsMap struct{ Meta map[string]interface{} }

type c04SelfI struct{}

func (v c04SelfI) Interface() interface{} { return v }

// customHC is a user type that satisfies hctx.HelperContext by embedding it.
type customHC struct{ hctx.HelperContext }

func c04Ctx() *plush.Context {
	ctx := kindCtx()
	for k, v := range c04Callees() {
		ctx.Set(k, v)
	}
	var kept *plush.HelperContext
	ctx.Set("c_keep", func(h plush.HelperContext) string { kept = &h; return "" })
	ctx.Set("c_replayKept", func(h plush.HelperContext) (string, error) {
		if kept == nil {
			return "", errors.New("nothing kept")
		}
		// (a scope under the kept context, not under the caller's: a chain of twenty thousand scopes would
		// make every lookup walk all of them)
		return kept.BlockWith(kept.New())
	})
	ctx.Set("partialFeeder", func(name string) (string, error) {
		if name == "ok" {
			return "P<%= 1 %>", nil
		}
		if name == "layself" {
			return "[<%= yield %>]<%= partial(\"ok\", {layout: \"layself\"}) %>", nil
		}
		if name == "selfp" {
			return "s<%= partial(\"selfp\") %>", nil
		}
		if name == "callsf" {
			return "c<%= f() %>", nil
		}
		if name == "uw" {
			return "P<%= c_errNilEmbedded() %>", nil
		}
		return "", fmt.Errorf("no partial %q", name)
	})
	return ctx
}

// c04Cell renders one cell; a panic is reported with the family in the signature.
func c04Cell(b *core.B, family, tmpl string) {
	if !b.Begin(tmpl) {
		return
	}
	r := renderQuiet(tmpl, c04Ctx())
	switch {
	case r.Pan != nil:
		b.Count(family + ":panic")
		b.Violate(family+"/"+r.Pan.Sig(), "panic: "+r.Pan.Value+"\n"+clipStack(r.Pan.Stack))
	case r.Err != nil:
		b.Count(family + ":error")
		if r.Out != "" {
			b.Violate("universal:error-with-output", fmt.Sprintf("err=%q out=%q", r.Err, r.Out))
		}
	default:
		b.Count(family + ":ok")
	}
	b.NonTrivialDistinct()
}

type c04Key string
type c04IKey int
type c04FKey float64

// c04SameNodeOtherKinds: one parsed expression meets values of every kind, one after the
// other - in later executions of its template, and in later passes of one loop. What it
// learnt about the first value (a key type, a method, a length) says nothing about the next.
func c04SameNodeOtherKinds(b *core.B) {
	type kv struct {
		name string
		v    interface{}
	}
	var pool []kv
	for _, k := range Kinds {
		if v := k.Make(); v != nil {
			pool = append(pool, kv{k.Name, v})
		}
	}
	pool = append(pool,
		kv{"map-named-string-key", map[c04Key]int{"a": 1, "k": 2}}, kv{"map-string-key", map[string]int{"a": 1}}, kv{"map-iface-key", map[interface{}]int{"a": 1, 0: 2}},
		kv{"map-named-int-key", map[c04IKey]string{0: "z", 1: "o"}}, kv{"map-int-key", map[int]string{0: "z"}}, kv{"map-int64-key", map[int64]string{0: "z"}}, kv{"map-uint8-key", map[uint8]string{0: "z"}},
		kv{"map-named-float-key", map[c04FKey]string{1.5: "f"}}, kv{"map-float-key", map[float64]string{1.5: "f"}}, kv{"map-bool-key", map[bool]string{true: "t"}},
		kv{"slice-of-named", []c04Key{"a"}}, kv{"array", [2]string{"a", "b"}}, kv{"ptr-to-slice", &[]int{1}})
	exprs := []string{`v["a"]`, `v[0]`, `v[1.5]`, `v[true]`, `v[k]`, `v.Name`, `v.Name.First`, `v.Label()`, `v + 1`, `v + "s"`, `1 + v`, `v == v`, `v ~= "a"`, `len(v)`, `v()`, `v(1)`, `!v`, `v && v`, `inspect(v)`}
	r := b.Rng(0xC04A)
	for _, e := range exprs {
		for _, form := range []string{"<%= E %>", "<% let x = E %><%= x %>", "<%= for (i) in [1] { %><%= E %><% } %>", "<%= if (E) { %>y<% } %>"} {
			src := strings.Replace(form, "E", e, -1)
			if !b.Begin(src + "  (one parsed template, " + fmt.Sprint(len(pool)) + " kinds of v in turn)") {
				continue
			}
			b.NonTrivialStr(src, "same-node-other-kinds")
			b.Count("same-node-other-kinds")
			t, err := plush.NewTemplate(src)
			if err != nil {
				continue
			}
			order := r.Perm(len(pool))
			for round := 0; round < 2; round++ {
				for _, k := range order {
					ctx := plush.NewContext()
					ctx.Set("v", pool[k].v)
					ctx.Set("k", "a")
					if pan := core.Guard(func() { _, _ = t.Exec(ctx) }); pan != nil {
						b.ViolateIn("same-node-other-kinds|"+pan.Sig(), src+"  with v a "+pool[k].name, fmt.Sprintf("execution of one parsed template after %d other kinds of v: %s", k, pan.Value))
						return
					}
					b.Count("same-node-other-kinds:executions")
				}
			}
		}
	}
}

func c04Run(b *core.B) {
	var idx int64
	cell := func(family, tmpl string) {
		idx++
		if b.Mine(idx) {
			c04Cell(b, family, tmpl)
		}
	}
	kn := make([]string, len(Kinds))
	for i, k := range Kinds {
		kn[i] = "v_" + k.Name
	}
	small := make([]string, len(SmallKinds))
	for i, k := range SmallKinds {
		small[i] = "v_" + k
	}
	if b.Batch == 0 {
		c04SameNodeOtherKinds(b)
	}
	lits := []string{"0", "1", "2", "99", "0 - 1", `"a"`, `"zz"`, "nil", "true", "1.5", "[1, 2]", "{a: 1}", "-1", "fn(a) { return a }"}

	// operators
	for _, op := range c04Ops {
		for _, l := range kn {
			for _, r := range kn {
				cell("op", "<%= "+l+" "+op+" "+r+" %>")
			}
			for _, r := range lits {
				cell("op-lit", "<%= "+l+" "+op+" "+r+" %>")
				cell("op-lit", "<%= "+r+" "+op+" "+l+" %>")
			}
		}
	}
	for _, t := range []string{
		"<% let f = fn(a) { return a } %><%= f %>", "<%= fn() { } %>", "<% let f = fn(a, b) { %>x<% } %><%= [f, f] %>", "<%= -1 %>", "<%= -v_int1 %>", "<%= - %>", "<%= !-1 %>",
		"<% let f = fn() { return fn() { return 1 } } %><%= f()() %>", "<%= {a: fn() { return 1 }} %>", "<% let f = fn(a) { return a } %><%= f + 1 %><%= f == f %><%= len(f) %>",
	} {
		cell("fn-values-and-prefix", t)
	}
	for _, t := range []string{
		// the same pointer-receiver method on a value, twice in one render and again in the next cell
		"<%= v_vz.Z() %><%= v_vz.Z() %><%= v_vz.A() %>", "<%= v_strct.PLabel() %><%= v_strct.PLabel() %><%= v_strct.PSelf().PLabel() %>",
		// entries removed from a map while it is being iterated
		"<% for (k, v) in v_msi { v_msi[k] = nil } %><%= len(v_msi) %>", "<% for (k, v) in v_msi { v_msi[\"a\"] = nil\n v_msi[\"b\"] = nil } %><%= len(v_msi) %>", "<% for (k, v) in v_mss { v_mss[\"a\"] = nil\n v_mss[\"zz\"] = \"n\" } %>",
		// keywords and odd tokens as hash keys
		"<%= {let: 1} %>", "<%= {if: 1, for: 2, fn: 3} %>", "<%= {true: 1, nil: 2} %>", "<%= {1: 1, \"s\": 2, 1.5: 3} %>", "<% let h = {return: 1} %><%= h[\"return\"] %>",
		// non-empty interface element types
		"<% v_stringers[0] = 1 %>", "<%= v_stringers + 1 %>", "<% v_stringers[0] = v_stringer %><%= v_stringers[0] %>", "<%= v_stringers + v_stringer %>",
		"<%= c_customhc() %>", "<%= c_customhc() { %>B<% } %>", "<%= c_customhc(nil) %>",
		"<%= truncate(v_str_cjk) %>", "<%= truncate(v_str_cjk, {size: 30}) %>", "<%= truncate(v_str_cjk, {size: 19, trail: \"…\"}) %>",
	} {
		cell("special", t)
	}
	// a context that is not a *plush.Context: Render and Exec take the interface
	// (helptest's context ships with the library); nil data maps for the constructors
	for _, t := range []string{
		"<%= for (x) in xs { %><%= x %><% } %>", "<% for (k, v) in m { %><%= k %><% } %>", "<%= xs[0].Name %>", "<%= m[\"a\"].Label() %>", "<%= f().Name %>", "<%= f().Tags[0] %>",
		"<% let g = fn(a) { return a } %><%= g(1) %>", "<%= if (nope) { %>T<% } %>", "<%= xs %>", "<% let a = [1] %><% a[0] = 2 %><%= a %>", "<%= f() { %>B<% } %>", "<%= nope() %>",
	} {
		idx++
		if !b.Mine(idx) || !b.Begin("foreign context: "+t) {
			continue
		}
		var out string
		var err error
		pan := core.Guard(func() {
			fc := helptest.NewContext()
			fc.Set("xs", []T{newT("a"), newT("b")})
			fc.Set("m", map[string]T{"a": newT("ma")})
			fc.Set("f", func() T { return newT("f") })
			out, err = plush.Render(t, fc)
		})
		b.Count("foreign-context")
		b.NonTrivialDistinct()
		if pan != nil {
			b.Violate("foreign-context/"+pan.Sig(), "panic: "+pan.Value)
		} else if err != nil && out != "" {
			b.Violate("universal:error-with-output", fmt.Sprintf("err=%q out=%q", err, out))
		}
	}
	for _, t := range []string{"x<%= 1 %>", "<% let a = 1 %><%= a %>", "<%= len(\"ab\") %>"} {
		idx++
		if !b.Mine(idx) || !b.Begin("nil data: "+t) {
			continue
		}
		pan := core.Guard(func() {
			_, _ = plush.BuffaloRenderer(t, nil, nil)
			_, _ = plush.BuffaloRenderer(t, nil, map[string]interface{}{"h": func() string { return "h" }})
			_, _ = plush.Render(t, plush.NewContextWith(nil))
			_, _ = plush.Render(t, plush.NewContextWithOuter(nil, plush.NewContext()))
		})
		b.Count("nil-data-map")
		b.NonTrivialDistinct()
		if pan != nil {
			b.Violate("nil-data-map/"+pan.Sig(), "panic: "+pan.Value)
		}
	}
	// values that would contain themselves: an error where the knot would be tied, or output - not a
	// printer that never comes back (the worker's stack is bounded, so that ends the process)
	for _, t := range []string{
		"<% let a = [1] %><% a[0] = a %><%= a %>", "<% let a = [1] %><% a[0] = a %><%= \"x\" + a %>", "<% let m = {} %><% m[\"self\"] = m %><%= inspect(m) %>", "<% let m = {} %><% m[\"self\"] = m %><%= debug(m) %>",
		"<% let a = [1] %><% let b = [a] %><% a[0] = b %><%= a %>", "<% let m = {} %><% let a = [m] %><% m[\"k\"] = a %><%= a %><%= toJSON(m) %>", "<% let a = [1, 2] %><% a[1] = [a] %><%= len(a) %><%= a %>",
		"<% let a = [1] %><% a[0] = [a, a] %><%= a == a %>", "<% v_ifaces[0] = v_ifaces %><%= v_ifaces %>", "<% v_msi[\"a\"] = v_msi %><%= v_msi %><%= inspect(v_msi) %>", "<% v_mii[1] = v_mii %><%= inspect(v_mii) %>",
		// not knots: the stored value does not contain the slot it is stored in
		"<% let a = [1, 2] %><% let b = [a] %><% let c = [b, a] %><% a[0] = 5 %><%= c %>", "<% let m = {} %><% let n = {\"m\": m} %><% m[\"k\"] = 1 %><%= toJSON(n) %>",
	} {
		cell("self-containing", t)
	}
	// assignment into maps that are nil, of every shape a template meets (a variable, a field, a map's element)
	for _, t := range []string{
		"<% nilmsi[\"k\"] = \"v\" %>", "<% nilmsi[\"k\"] = nil %>", "<% holdm.Meta[\"k\"] = \"v\" %><%= holdm.Meta %>", "<% pholdm.Meta[\"k\"] = 1 %>", "<% mofm[\"none\"][\"k\"] = \"v\" %>",
		"<% nilmss[\"k\"] = \"v\" %>", "<% nilmii[1] = 2 %>", "<% let m = holdm.Meta %><% m[\"a\"] = [1] %><%= m %>",
	} {
		idx++
		if !b.Mine(idx) || !b.Begin("nil maps: "+t) {
			continue
		}
		ctx := c04Ctx()
		ctx.Set("nilmsi", map[string]interface{}(nil))
		ctx.Set("nilmss", map[string]string(nil))
		ctx.Set("nilmii", map[int]int(nil))
		ctx.Set("holdm", c04HoldsMap{})
		ctx.Set("pholdm", &c04HoldsMap{})
		ctx.Set("mofm", map[string]map[string]interface{}{"none": nil})
		r := renderQuiet(t, ctx)
		b.Count("assignments-into-nil-maps")
		b.NonTrivialDistinct()
		if r.Pan != nil {
			b.Violate("nil-map-assignment/"+r.Pan.Sig(), "panic: "+r.Pan.Value)
		}
	}
	// errors of the caller's own types: whatever the engine asks them (Error, Unwrap, Is, As) may panic
	for _, t := range []string{
		"<%= c_errNilEmbedded() %>", "<% c_errNilEmbedded() %>", "<%= if (true) { %><%= c_errNilEmbedded() %><% } %>", "<%= for (x) in [1] { %><%= c_errNilEmbedded() %><% } %>",
		"<%= cap() { %><%= c_errNilEmbedded() %><% } %>", "<%= partial(\"uw\") %>", "<%= c_errUnwrapPanics() %>", "<%= c_errErrorPanics() %>", "<%= c_errIsPanics() %>", "<%= c_errSelfUnwrap() %>",
		"<% contentFor(\"e\") { %><%= c_errUnwrapPanics() %><% } %><%= contentOf(\"e\") %>", "<%= if (c_errNilEmbedded()) { %>x<% } %>", "<%= c_errNilEmbedded() == nil %>",
	} {
		cell("errors-of-the-callers-own-types", t)
	}
	// the iterators of the stock helpers printed by every printer there is (their own Format method included)
	for _, t := range []string{
		"<%= debug(range(1, 3)) %>", "<%= inspect(until(2)) %>", "<%= inspect([between(1, 5)]) %>", "<%= debug({\"r\": range(1, 2)}) %>", "<%= truncate(between(1, 5), {}) %>", "<%= truncate(between(1, 5)) %>",
		"<%= debug(groupBy(2, [1, 2, 3])) %>", "<%= inspect(groupBy(2, [1, 2, 3])) %>", "<%= \"\" + [range(1, 2), groupBy(1, [1])] %>", "<%= c_i(range(1, 2)) %>", "<%= c_ii(1, until(3)) %>", "<%= toJSON(range(1, 2)) %>",
		"<% let it = range(1, 2) %><%= for (x) in it { %><%= x %><% } %><%= debug(it) %><%= inspect(it) %>",
	} {
		cell("iterators-printed", t)
	}
	// a value whose Interface() gives the value itself
	for _, t := range []string{"<%= selfI %>", "<%= [selfI] %>", "<%= if (true) { %><%= selfI %><% } %>", "<%= pselfI %>", "<%= selfL %>", "<%= [selfL, 1] %>"} {
		idx++
		if !b.Mine(idx) || !b.Begin("self-interface: "+t) {
			continue
		}
		ctx := c04Ctx()
		ctx.Set("selfI", c04SelfI{})
		ctx.Set("pselfI", &c04SelfI{})
		ctx.Set("selfL", c04SelfL{})
		r := renderQuiet(t, ctx)
		b.Count("values-whose-Interface-is-themselves")
		b.NonTrivialDistinct()
		if r.Pan != nil {
			b.Violate("self-interface/"+r.Pan.Sig(), "panic: "+r.Pan.Value)
		}
	}
	// blocks that replay themselves: an error (or output), not a stack that grows until the process dies
	for _, t := range []string{
		"<% contentFor(\"c\") { %>a<%= contentOf(\"c\") %><% } %><%= contentOf(\"c\") %>",
		"<% contentFor(\"a\") { %><%= contentOf(\"b\") %><% } %><% contentFor(\"b\") { %><%= contentOf(\"a\") %><% } %><%= contentOf(\"a\") %>",
		"<% contentFor(\"c\") { %><%= cap() { %><%= contentOf(\"c\") %><% } %><% } %><%= contentOf(\"c\") %>",
		// a layout that, through a partial, is its own layout again
		"<%= partial(\"ok\", {layout: \"layself\"}) %>",
		// a block replayed by hand, the way helper packages other than the library's own do it
		"<% contentFor(\"a\") { %>x<%= c_again() %><% } %><%= contentOf(\"a\") %>", "<%= c_keep() { %>y<%= c_replayKept() %><% } %><%= c_replayKept() %>",
		// the same through partials and template functions, and with much between two calls
		"<%= partial(\"selfp\") %>", "<% let f = fn() { return partial(\"callsf\") } %><%= f() %>",
		"<% let f = fn() { " + strings.Repeat("if (true) { ", 100) + "return f()" + strings.Repeat(" }", 100) + " } %><%= f() %>",
		"<% let f = fn(x) { return f(x) } %><%= f(1) %>",
	} {
		cell("blocks-that-replay-themselves", t)
	}
	// a partial feeder that is a nil function (of the plain or of the exported type)
	for i, f := range []interface{}{(func(string) (string, error))(nil), plush.PartialFeeder(nil), 5, nil} {
		idx++
		if !b.Mine(idx) || !b.Begin(fmt.Sprintf("nil partial feeder %d", i)) {
			continue
		}
		pan := core.Guard(func() {
			ctx := plush.NewContext()
			ctx.Set("partialFeeder", f)
			_, _ = plush.Render(`<%= partial("p") %>`, ctx)
		})
		b.Count("odd-partial-feeder")
		b.NonTrivialDistinct()
		if pan != nil {
			b.Violate("partial-feeder/"+pan.Sig(), "panic: "+pan.Value)
		}
	}
	// pure scripts through RunScript
	for _, sc := range []string{"let a = 1\n a = a + 1", "let a = [1,2]\n a[5] = 1", "print(nope)", "let f = fn(x) { return x }\n f()", "for (x) in 5 { }", "if (true) { return 1 }", "1 / 0", "let a = {}\n a.b = 1", ")", "", "let x = truncate(5, 5)"} {
		idx++
		if b.Mine(idx) && b.Begin("RunScript: "+sc) {
			pan := core.Guard(func() { _ = plush.RunScript(sc, c04Ctx()) })
			b.Count("runscript")
			b.NonTrivialDistinct()
			if pan != nil {
				b.Violate("runscript/"+pan.Sig(), pan.Value)
			}
		}
	}
	for _, l := range kn {
		cell("not", "<%= !"+l+" %>")
		cell("not", "<%= !!"+l+" %>")
		cell("emit", "<%= "+l+" %>")
		cell("emit", "<% "+l+" %>")
		cell("emit", "<%= if (true) { return "+l+" } %>")
		cell("emit", "<%= ["+l+", "+l+"] %>")
		cell("emit", "<%= {a: "+l+"} %>")
		cell("cond", "<%= if ("+l+") { %>T<% } else { %>F<% } %>")
		cell("cond", "<%= if (false) { %>T<% } else if ("+l+") { %>E<% } %>")
		cell("let", "<% let q = "+l+" %><%= q %>")
		cell("assign", "<% "+l+" = 1 %><%= "+l+" %>")
		cell("assign", "<% nope = "+l+" %>")
		cell("assign", "<% "+l+".Name = 1 %>")
		cell("assign", "<% let z = 1 %><% z = "+l+" %><%= z %>")
	}

	// index read
	for _, c := range kn {
		for _, i := range kn {
			cell("index-read", "<%= "+c+"["+i+"] %>")
			cell("index-read-member", "<%= "+c+"["+i+"].Name %>")
		}
		for _, i := range lits {
			cell("index-read-lit", "<%= "+c+"["+i+"] %>")
			cell("index-read-lit", "<%= "+c+"["+i+"]["+i+"] %>")
			cell("index-read-member", "<%= "+c+"["+i+"].Name %>")
			cell("index-read-member", "<%= "+c+"["+i+"].Label() %>")
		}
	}
	// index write
	vals := []string{"nil", "1", `"x"`, "true", "1.5", "v_int64", "v_ints3", "v_msi", "v_strct", "v_nilp", "v_html_i", "[1]"}
	for _, c := range kn {
		for _, i := range kn {
			for _, v := range vals {
				cell("index-write", "<% "+c+"["+i+"] = "+v+" %><%= "+c+" %>")
			}
		}
		for _, i := range lits {
			for _, v := range vals {
				cell("index-write-lit", "<% "+c+"["+i+"] = "+v+" %><%= "+c+" %>")
			}
		}
	}
	// member access
	members := []string{"Name", "N", "Tags", "M", "Next", "Any", "Missing", "hidden", "Label", "PLabel", "Label()", "PLabel()", "Add(1, 2)", "Add(1)", "Add()", "Add(1, 2, 3)", `Add("a", 2)`, "Self()", "PSelf()", "Fail()", "Missing()", "hidden()",
		"Next.Name", "Next.Label()", "Next.PLabel()", "Next.Next.Name", "Next.Next.PLabel()", "Self().Name", "PSelf().Name", "Self().Self().Label()", "PSelf().Next.PLabel()", "Tags[0]", "Tags[5]", "M[\"k\"]", "M[\"zz\"]", "Next.Tags[0]", "Strs()[0]", "Any.Name", "Name.Name", "Len()", "String()", "Format(\"2006\")", "HTML()", "Next()", "A()", "Z()", "Z().x", "T", "T.Name"}
	for _, r := range kn {
		for _, m := range members {
			// (methods that panic themselves - promoted from a nil embedded pointer or interface,
			// reflect.Value.Len on a bool - are calls that fail: an error, not a panic of the engine)
			cell("member", "<%= "+r+"."+m+" %>")
			cell("member-cond", "<% if ("+r+"."+m+") { %>T<% } %>")
		}
	}
	// iterables
	for _, it := range kn {
		cell("for", "<% for (k, v) in "+it+" { %>[<%= k %>=<%= v %>]<% } %>")
		cell("for", "<% for (v) in "+it+" { %><%= v %><% } %>")
		cell("for", "<%= for (k, v) in "+it+" { return v } %>")
		cell("for", "<% for (k, v) in "+it+" { if (k == 1) { continue } %>x<% if (k == 2) { break } } %>")
		cell("for", "<% for (k, v) in "+it+".Tags { %><%= v %><% } %>")
	}
	// callee x argument tuples
	callees := []string{}
	for k := range c04Callees() {
		callees = append(callees, k)
	}
	sort.Strings(callees)
	argpool := append(append([]string{}, small...), `"lit"`, "2", "{a: 1}", "nil")
	tuples := [][]string{{}}
	for n := 1; n <= 3; n++ {
		var rec func(cur []string)
		rec = func(cur []string) {
			if len(cur) == n {
				tuples = append(tuples, append([]string{}, cur...))
				return
			}
			for _, a := range argpool {
				rec(append(cur, a))
			}
		}
		rec(nil)
	}
	for _, c := range callees {
		for _, tp := range tuples {
			cell("call", "<%= "+c+"("+strings.Join(tp, ", ")+") %>")
		}
		for _, tp := range tuples[:1+len(argpool)] {
			cell("call-block", "<%= "+c+"("+strings.Join(tp, ", ")+") { %>B<% } %>")
		}
	}
	// calling every kind
	for _, c := range kn {
		cell("call-kind", "<%= "+c+"() %>")
		cell("call-kind", "<%= "+c+"(1) %>")
		cell("call-kind", "<%= "+c+"(\"a\", 2) %>")
		cell("call-kind", "<%= "+c+"() { %>B<% } %>")
		for _, a := range kn {
			cell("call-fn1", "<%= v_fn1("+a+") %>")
			cell("call-fnv", "<%= v_fnv("+a+", "+c+") %>")
		}
	}
	// user functions: 0-3 parameters, 0-4 arguments
	params := []string{"", "a", "a, b", "a, b, c"}
	args := []string{"", "1", "1, 2", "1, 2, 3", "1, 2, 3, 4", "nil", "v_nilp, nope"}
	bodies := []string{"return 1", "return a", "return a + b", "", "%>T<%", "if (a) { return a } return c"}
	for _, p := range params {
		for _, a := range args {
			for _, body := range bodies {
				cell("userfn", "<% let f = fn("+p+") { "+body+" } %><%= f("+a+") %>")
			}
		}
	}
	// built-in helpers x argument kinds
	helperNames := []string{}
	for k := range plush.Helpers.All() {
		helperNames = append(helperNames, k)
	}
	sort.Strings(helperNames)
	b.SetExtra("builtin_helpers", helperNames)
	for _, h := range helperNames {
		cell("helper:"+h, "<%= "+h+"() %>")
		cell("helper:"+h, "<%= "+h+"() { %>B<% } %>")
		for _, a := range kn {
			cell("helper:"+h, "<%= "+h+"("+a+") %>")
			cell("helper:"+h, "<%= "+h+"("+a+") { %>B<%= 1 %><% } %>")
			for _, a2 := range kn {
				cell("helper:"+h, "<%= "+h+"("+a+", "+a2+") %>")
			}
		}
		for _, a := range small {
			for _, a2 := range small {
				for _, a3 := range small {
					cell("helper:"+h, "<%= "+h+"("+a+", "+a2+", "+a3+") %>")
				}
			}
		}
		for _, a := range []string{`"ok"`, `"missing"`, `"<b>"`, "3", "0", "0 - 1", "v_intmax", "9223372036854775807", "v_intmax - 1"} {
			for _, a2 := range []string{`{}`, `{size: 2}`, `{size: "x"}`, `{trail: 5}`, `{size: 0 - 1, trail: "…"}`, `{layout: "ok"}`, `{layout: 5}`, `"s"`, "2", "[1, 2, 3]", "v_ints3", "v_arr3", "v_pints", "nil"} {
				cell("helper:"+h, "<%= "+h+"("+a+", "+a2+") %>")
			}
		}
	}
	// truncate option maps over all kinds
	for _, a := range kn {
		cell("helper:truncate", `<%= truncate("hello world", {size: `+a+`}) %>`)
		cell("helper:truncate", `<%= truncate("hello world", {trail: `+a+`}) %>`)
		cell("helper:truncate", `<%= truncate("hello world", {size: 3, trail: `+a+`}) %>`)
		cell("helper:contentOf", `<% contentFor("c") { %>C<%= x %><% } %><%= contentOf("c", {x: `+a+`}) %>`)
		cell("helper:partial", `<%= partial("ok", {x: `+a+`, layout: `+a+`}) %>`)
		cell("helper:groupBy", `<% for (g) in groupBy(2, `+a+`) { %><%= g %><% } %>`)
		cell("helper:len", `<%= len(`+a+`) + 1 %>`)
	}

	knNoEmbed := []string{}
	for _, k := range kn {
		if k != "v_embeds_nil" {
			knNoEmbed = append(knNoEmbed, k)
		}
	}
	// random well-formed programs with leaves from K
	nRand := 20000
	if b.Tier == core.Thorough {
		nRand = 4000000
	}
	r := b.Rng(9)
	for i := 0; i < nRand/b.NBatches; i++ {
		tmpl := c04RandomProgram(r, knNoEmbed)
		if !b.Begin(tmpl) {
			continue
		}
		res := renderQuiet(tmpl, c04Ctx())
		if res.Pan != nil {
			b.Count("random:panic")
			b.Violate("random/"+res.Pan.Sig(), "panic: "+res.Pan.Value+"\n"+clipStack(res.Pan.Stack))
		} else if res.Err != nil {
			b.Count("random:error")
			if res.Out != "" {
				b.Violate("universal:error-with-output", fmt.Sprintf("err=%q out=%q", res.Err, res.Out))
			}
		} else {
			b.Count("random:ok")
		}
		b.NonTrivialStr(tmpl)
	}
}

// c04RandomProgram builds a syntactically valid program whose leaves are
// drawn from the kind pool (types are deliberately not respected).
func c04RandomProgram(r *core.Rng, kn []string) string {
	var expr func(d int) string
	leaf := func() string {
		switch r.Intn(10) {
		case 0:
			return pick(r, []string{"0", "1", "2", "7", `"s"`, "`b`", "true", "false", "nil", "1.5", "nope"})
		default:
			return pick(r, kn)
		}
	}
	expr = func(d int) string {
		if d <= 0 {
			return leaf()
		}
		switch r.Intn(12) {
		case 0, 1, 2:
			return expr(d-1) + " " + pick(r, c04Ops) + " " + expr(d-1)
		case 3:
			return "!" + expr(d-1)
		case 4:
			return "(" + expr(d-1) + ")"
		case 5:
			return leaf() + "[" + expr(d-1) + "]"
		case 6:
			return "[" + expr(d-1) + ", " + expr(d-1) + "]"
		case 7:
			return "{k: " + expr(d-1) + "}"
		case 8:
			return pick(r, []string{"c_s", "c_i", "c_any", "c_vs", "c_ii", "c_vany", "len", "raw", "toJSON", "inspect", "htmlEscape", "capitalize", "v_fn1", "v_fnv"}) + "(" + expr(d-1) + ")"
		case 9:
			return leaf() + "." + pick(r, []string{"Name", "Next", "Tags", "Label()", "PLabel()", "Next.Name", "Self().Name", "M"})
		default:
			return leaf()
		}
	}
	var stmts func(d, n int) string
	stmt := func(d int) string {
		switch r.Intn(9) {
		case 0:
			return "<%= " + expr(2) + " %>"
		case 1:
			return "<% let " + pick(r, []string{"q", "w", "v_int1", "v_strs"}) + " = " + expr(2) + " %>"
		case 2:
			if d > 0 {
				return "<% if (" + expr(1) + ") { %>" + stmts(d-1, 2) + "<% } else { %>" + stmts(d-1, 1) + "<% } %>"
			}
		case 3:
			if d > 0 {
				return "<% for (k, v) in " + expr(1) + " { %>" + stmts(d-1, 2) + "<%= v %><% } %>"
			}
		case 4:
			return "<% " + leaf() + "[" + expr(1) + "] = " + expr(1) + " %>"
		case 5:
			return "<% " + pick(r, kn) + " = " + expr(2) + " %>"
		case 6:
			return "<% let f = fn(a, b) { return " + expr(1) + " } %><%= f(" + expr(1) + pick(r, []string{"", ", " + leaf()}) + ") %>"
		case 7:
			return "text"
		}
		return "<%= " + expr(1) + " %>"
	}
	stmts = func(d, n int) string {
		var sb strings.Builder
		for i := 0; i < n; i++ {
			sb.WriteString(stmt(d))
		}
		return sb.String()
	}
	return stmts(2, r.Range(1, 4))
}

func init() {
	core.Register(&core.Prop{
		ID:         "C04",
		Level:      "exploration",
		Rule:       fmt.Sprintf("one tiny template per cell of exhaustive matrices over a pool of %d value kinds (fresh context per cell): operator x left x right, index read/write x container x index x value, receiver x member/method, iterable, callee signature x argument tuples (0-3 args), user functions x arity, every built-in helper (enumerated from plush.Helpers at run time) x argument kinds; plus random well-formed programs with leaves from the pool. A cell is non-trivial when it was rendered (all are distinct by construction; random programs are counted by hash). Oracle: recover() sees no panic; an error comes with empty output.", len(Kinds)),
		Assume:     []string{"a panic that reaches the caller of Render is the engine's: fixture methods are total, except the ones that are there to panic (promoted from nil embedded values, reflect.Value.Len on a bool), whose panic must come back as an error", "process-fatal errors are caught by the supervisor through the journal"},
		Batches:    batchesQT(32, 64),
		Run:        c04Run,
		Exhaustive: func(core.Tier) bool { return true },
	})
}
