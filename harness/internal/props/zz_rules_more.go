package props

import "verifharness/internal/core"

// The rule strings of the checks were written with the first version of each workload. What the
// later rounds added (DESIGN.md §5.0, seeded/STRENGTHENED.md) is appended here, so that the rule in
// an evidence file names everything the counts histogram next to it counts.
func init() {
	more := map[string]string{
		"C02": "a template of 120 000 iterations of text and values (the output is all of it)",
		"C04": "fixed families: values that would contain themselves, foreign contexts, nil data maps, odd partial feeders, errors of the caller's own types whose Error / Unwrap / Is panic or unwrap to themselves, blocks, partials, layouts and template functions that replay / include / call themselves without end (by contentOf, by hand, through partials), values whose Interface() is the value or a list holding it, the stock iterators through every printer, assignments into nil maps of every shape",
		"C05": "faults that come back with a value in hand followed by a member or index, and an unknown name in a function body that is spelt like the receiver of the call around it",
		"C07": "values written as literals (0, 0.0, 1, \"\", \"a\", ``, true, false, nil, parenthesised)",
		"C08": "fixed cases: break / continue in helper blocks in every statement position (condition of an if, argument of a helper or function, iterable of an inner loop, second operand), in stored blocks replayed in the same and in later executions, nil elements, iterables that end in a call after an index / map index / nested index / another call",
		"C09": "constructs contentOf-without-data, contentOf-default-block-without-data; loops over a one-element iterator",
		"C10": "a helper registered after the contexts were made: known in all of a tree or none, hidden by any stored value (nil included)",
		"C12": "fixed cases: contexts kept by helpers, foreign contexts, calls with an empty block, literal arguments are evaluated afresh at every call (helpers that change the map or slice they were given)",
		"C13": "fixed cases: same-named types, values made while executing (iterators, function values - which are no door to the parsed tree), error texts repeated 24 times, a self-including partial failing at the innermost level (in a helper block, in a function, in a stored block of the outermost run) with the cache off and on, executions after a failed one",
		"C15": "containers with helper blocks inside helper blocks; self-including templates; a stored block and a template function of the including template failing inside a partial (also in a helper block of the function's body, also in a later render)",
		"C16": "fixed programs: calls in the argument lists of calls evaluated in a loop and twice",
		"C17": "values changed between two outputs of one block; seven compositions used twice (one options map for two partial calls and in a loop, a Go map, stored and default blocks that set a name, partials that set a name)",
		"C18": "hand-written pairs: a ';' after an assignment before a statement that starts with a bracket, an unclosed last tag with and without white space before the end",
		"C19": "group counts at the extremes of int; len of named slice / map / array / string types that have String, HTML or Error methods",
	}
	for id, m := range more {
		if p := core.Lookup(id); p != nil {
			p.Rule += " Later additions: " + m + "."
		}
	}
	// rounds ten and eleven: caches, pools and other state that survives an evaluation
	state := map[string]string{
		"C01": "wrapper types (reflect.Value, a struct with Interface()) printed holding trusted HTML and holding strings in one process",
		"C02": "a UTF-8 byte order mark in literal text; every 61st template follows a render that ended badly after writing text (error, recovered panic of the caller's context, failing helper block or partial, parse error)",
		"C03": "an ordinary template parsed and executed after every rejected input and every deep ladder",
		"C04": "nineteen expressions x four statement forms parsed once and executed with about 100 kinds of value in turn, twice",
		"C05": "faults reached through one call site that has just called functions that cannot fail",
		"C07": "paths of any length that start at an unknown name or a nil variable",
		"C08": "iterables that mention variables executed with four data sets (one parsed template, cache on); a helper that runs its block 1-3 times per call with break / continue in any pass; iterators kept in variables looped over two and three times",
		"C11": "field names repeated at several embedding depths against reflect's FieldByName; paths whose later steps use variables that change between evaluations",
		"C12": "helper contexts taken by pointer or by value, kept, and replayed after 1-4 later calls",
		"C13": "methods of four same-named struct types against MethodByName in shuffled orders; fourteen near twins of one text (line endings, BOM, blanks, case, NUL, composed letters) with the cache on",
		"C15": "prefix lines with a line break right after each lexical special (escaped opener, backslashes, quotes, comments, literals over lines)",
		"C17": "partial and layout names with dots in directory parts",
		"C19": "300 histories of several live counting iterators, made and asked in any order, each against its model sequence",
	}
	for id, m := range state {
		if p := core.Lookup(id); p != nil {
			p.Rule += " Rounds ten and eleven: " + m + "."
		}
	}
}
