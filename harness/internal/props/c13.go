package props

import (
	"errors"
	"fmt"
	"reflect"
	"regexp"
	"sort"
	"strings"

	"github.com/gobuffalo/plush/v5"
	"github.com/gobuffalo/plush/v5/ast"

	"verifharness/internal/core"
)

// C13 — rendering is a deterministic function of template text and data;
// executing a template never modifies its parsed program.

// astHash is a deep structural hash of a parsed program: pointer-identity
// aware (cycles through Identifier.Callee / OriginalCallee), maps hashed
// order-independently.
type astHasher struct {
	seen map[uintptr]int
}

func mix(h, x uint64) uint64 { return core.Mix(h ^ (x + 0x9E3779B97F4A7C15 + (h << 6) + (h >> 2))) }

func (a *astHasher) hash(v reflect.Value) uint64 {
	if !v.IsValid() {
		return 0x11
	}
	h := core.HashStr(v.Type().String())
	switch v.Kind() {
	case reflect.Ptr:
		if v.IsNil() {
			return mix(h, 0x22)
		}
		p := v.Pointer()
		if idx, ok := a.seen[p]; ok {
			return mix(h, uint64(idx)+0x33)
		}
		a.seen[p] = len(a.seen) + 1
		return mix(h, a.hash(v.Elem()))
	case reflect.Interface:
		if v.IsNil() {
			return mix(h, 0x44)
		}
		return mix(h, a.hash(v.Elem()))
	case reflect.Struct:
		for i := 0; i < v.NumField(); i++ {
			h = mix(h, a.hash(v.Field(i)))
		}
		return h
	case reflect.Slice, reflect.Array:
		if v.Kind() == reflect.Slice && v.IsNil() {
			return mix(h, 0x55)
		}
		h = mix(h, uint64(v.Len()))
		for i := 0; i < v.Len(); i++ {
			h = mix(h, a.hash(v.Index(i)))
		}
		return h
	case reflect.Map:
		if v.IsNil() {
			return mix(h, 0x66)
		}
		var hs []uint64
		for _, k := range v.MapKeys() {
			sub := &astHasher{seen: map[uintptr]int{}}
			for p, i := range a.seen {
				sub.seen[p] = i
			}
			hs = append(hs, mix(sub.hash(k), sub.hash(v.MapIndex(k))))
		}
		sort.Slice(hs, func(i, j int) bool { return hs[i] < hs[j] })
		for _, x := range hs {
			h = mix(h, x)
		}
		return h
	case reflect.String:
		return mix(h, core.HashStr(v.String()))
	case reflect.Bool:
		if v.Bool() {
			return mix(h, 1)
		}
		return mix(h, 2)
	case reflect.Int, reflect.Int8, reflect.Int16, reflect.Int32, reflect.Int64:
		return mix(h, uint64(v.Int()))
	case reflect.Uint, reflect.Uint8, reflect.Uint16, reflect.Uint32, reflect.Uint64:
		return mix(h, v.Uint())
	case reflect.Float32, reflect.Float64:
		return mix(h, core.HashStr(fmt.Sprint(v.Float())))
	}
	return mix(h, 0x77)
}

func programHash(p *ast.Program) uint64 {
	a := &astHasher{seen: map[uintptr]int{}}
	return a.hash(reflect.ValueOf(p))
}

var reHexAddr = regexp.MustCompile(`0x[0-9a-f]+`)

type c13Obs struct {
	out   string
	err   string
	trace string
}

func (o c13Obs) String() string {
	if o.err != "" {
		return fmt.Sprintf("ERR %q trace=%s", o.err, o.trace)
	}
	return fmt.Sprintf("OUT %q trace=%s", o.out, o.trace)
}

// c13Self is a template that renders itself as a partial (to depth 2): with
// the cache on, the inner Render is served the very same *Template that is
// executing, so executions of one template overlap.
const c13Self = `[<%= d %>:<%= who %><%= if (d > 0) { %><%= partial("self", {d: d - 1, who: "inner"}) %><% } %>:<%= who %>:<%= ci %>]`

// c13SelfText is what the "self" partial resolves to: the text being executed.
var c13SelfText = c13Self

func c13Exec(b *core.B, how string, variant int, f func(ctx *plush.Context) (string, error)) (c13Obs, bool) {
	env := &progEnv{}
	ctx := progCtxV(env, variant)
	ctx.Set("d", 2)
	ctx.Set("who", "outer")
	if def, ok := ctx.Value("partialFeeder").(func(string) (string, error)); ok {
		ctx.Set("partialFeeder", func(n string) (string, error) {
			if n == "self" {
				return c13SelfText, nil
			}
			return def(n)
		})
	}
	var out string
	var err error
	pan := core.Guard(func() { out, err = f(ctx) })
	if pan != nil {
		b.Violate(pan.Sig(), how+": "+pan.Value)
		return c13Obs{}, false
	}
	o := c13Obs{out: out, trace: strings.Join(env.trace, ",")}
	if err != nil {
		o.err = reHexAddr.ReplaceAllString(err.Error(), "0xADDR")
	}
	return o, true
}

// Values of distinct struct types that carry the same name (declared inside
// different functions) or no name at all, with the same fields at other positions.
func c13RowA() interface{} {
	type row struct{ Hidden, ID, Name string }
	return row{"hA", "idA", "nameA"}
}

func c13RowB() interface{} {
	type row struct {
		Name string
		Pad  int
		ID   string
	}
	return &row{"nameB", 0, "idB"}
}

// c13SameNamedTypes: what a template renders depends on its text and the data,
// not on which other types were rendered earlier in the process.
func c13SameNamedTypes(b *core.B) {
	vals := []struct {
		v    interface{}
		want string
	}{
		{c13RowA(), "nameA/idA"}, {c13RowB(), "nameB/idB"}, {struct{ A, Name, ID string }{"a", "anon1", "i1"}, "anon1/i1"}, {struct{ ID, Name, A string }{"i2", "anon2", "a"}, "anon2/i2"},
	}
	const text = `<%= r.Name %>/<%= r.ID %>`
	for _, order := range [][]int{{0, 1, 0, 1}, {1, 0, 1}, {2, 3, 2, 0, 3, 1}, {3, 2, 1, 0}} {
		if !b.Begin(fmt.Sprintf("same-named struct types, order %v: %s", order, text)) {
			continue
		}
		b.NonTrivialStr("same-named-types", fmt.Sprint(order))
		b.Count("same-named-struct-types")
		for step, k := range order {
			ctx := plush.NewContext()
			ctx.Set("r", vals[k].v)
			ctx.Set("rows", []interface{}{vals[k].v})
			res := render(b, text+`|<%= rows[0].Name %>`, ctx)
			if res.Pan != nil {
				break
			}
			want := vals[k].want + "|" + strings.Split(vals[k].want, "/")[0]
			if res.Err != nil || res.Out != want {
				b.Violate("depends-on-earlier-renders|same-named-struct-types", fmt.Sprintf("step %d of order %v (%T): want %q, got %s", step, order, vals[k].v, want, res))
				break
			}
		}
	}
}

// Methods of same-named types: the types differ in what they embed, so the method sets differ
// (in members and in the position of a member of the same name).
type c13MethA struct{ tag string }

func (m c13MethA) Name() string  { return "name-of-" + m.tag }
func (m c13MethA) Title() string { return "title-of-" + m.tag }

type c13MethB struct{ tag string }

func (m c13MethB) Alias() string { return "alias-of-" + m.tag }
func (m c13MethB) Name() string  { return "name-of-" + m.tag }

type c13MethC struct{ tag string }

func (m *c13MethC) Name() string  { return "ptr-name-of-" + m.tag }
func (m c13MethC) Zeta() string   { return "zeta-of-" + m.tag }
func (m c13MethC) Alias() string  { return "alias-of-" + m.tag }
func (m c13MethC) Middle() string { return "middle-of-" + m.tag }

func c13UserA() interface{} {
	type User struct{ c13MethA }
	return User{c13MethA{"A"}}
}

func c13UserB() interface{} {
	type User struct{ c13MethB }
	return User{c13MethB{"B"}}
}

func c13UserC() interface{} {
	type User struct{ c13MethC }
	return &User{c13MethC{"C"}}
}

func c13UserD() interface{} {
	type User struct{ c13MethC }
	return User{c13MethC{"D"}}
}

// c13SameNamedMethods: a method call on a value means the method of that name of *its* type,
// whatever same-named types were seen before. The reference is Go's own lookup.
func c13SameNamedMethods(b *core.B) {
	vals := []interface{}{c13UserA(), c13UserB(), c13UserC(), c13UserD()}
	names := []string{"Name", "Title", "Alias", "Zeta", "Middle"}
	want := func(v interface{}, name string) (string, bool) {
		rv := reflect.ValueOf(v)
		m := rv.MethodByName(name)
		if !m.IsValid() && rv.Kind() != reflect.Ptr {
			// the engine calls pointer methods on a copy of a value that is not addressable
			pv := reflect.New(rv.Type())
			pv.Elem().Set(rv)
			m = pv.MethodByName(name)
		}
		if !m.IsValid() {
			return "", false
		}
		return m.Call(nil)[0].String(), true
	}
	r := b.Rng(0xC13A)
	for round := 0; round < 6; round++ {
		order := []int{0, 1, 2, 3, 0, 1, 2, 3, 0, 1, 2, 3}
		for i := len(order) - 1; i > 0; i-- {
			j := r.Intn(i + 1)
			order[i], order[j] = order[j], order[i]
		}
		if !b.Begin(fmt.Sprintf("methods of same-named struct types, order %v", order)) {
			continue
		}
		b.NonTrivialStr("same-named-methods", fmt.Sprint(order))
		b.Count("same-named-struct-types-methods")
	steps:
		for step, k := range order {
			for _, name := range names {
				for _, text := range []string{"<%= u." + name + "() %>", "<%= us[0]." + name + "() %>", "<% let x = u %><%= x." + name + "() %>"} {
					ctx := plush.NewContext()
					ctx.Set("u", vals[k])
					ctx.Set("us", []interface{}{vals[k]})
					res := render(b, text, ctx)
					if res.Pan != nil {
						break steps
					}
					w, ok := want(vals[k], name)
					if ok && (res.Err != nil || res.Out != w) || !ok && res.Err == nil && res.Out != "" {
						b.Violate("depends-on-earlier-renders|same-named-struct-types|methods", fmt.Sprintf("step %d of order %v: %s on a %T (%d methods): Go finds %q (exists: %v), got %s", step, order, text, vals[k], reflect.TypeOf(vals[k]).NumMethod(), w, ok, res))
						break steps
					}
				}
			}
		}
	}
}

// c13NearTexts: with the cache on, two texts that differ only in what a normaliser might
// take for noise (line endings, trailing blanks, a byte order mark, case, blanks inside
// a tag, a NUL, composed and decomposed letters) are two templates: each renders as it
// does with the cache off, whichever of them was rendered first.
func c13NearTexts(b *core.B) {
	base := "Line one\n<%= \"a\nb\" %> x\n<%= v %>\nend\n"
	variants := []struct{ name, text string }{
		{"crlf", strings.Replace(base, "\n", "\r\n", -1)},
		{"cr", strings.Replace(base, "\n", "\r", -1)},
		{"trailing-blank", base + " "},
		{"trailing-newline", base + "\n"},
		{"leading-bom", "\ufeff" + base},
		{"leading-blank", " " + base},
		{"upper-case", strings.Replace(base, "Line one", "LINE ONE", 1)},
		{"blanks-in-tag", strings.Replace(base, "<%= v %>", "<%=  v  %>x", 1)},
		{"tab-for-blank", strings.Replace(base, "Line one", "Line\tone", 1)},
		{"nul", strings.Replace(base, "Line one", "Line\x00one", 1)},
		{"doubled-blank", strings.Replace(base, "Line one", "Line  one", 1)},
		{"nbsp", strings.Replace(base, "Line one", "Line\u00a0one", 1)},
		{"decomposed", strings.Replace(base, "end", "e\u0301nd", 1)},
		{"composed", strings.Replace(base, "end", "\u00e9nd", 1)},
	}
	defer func() { plush.CacheEnabled = false }()
	run := func(text string, cache bool) R {
		plush.CacheEnabled = cache
		ctx := plush.NewContext()
		ctx.Set("v", "V")
		return renderQuiet(text, ctx)
	}
	for i, va := range variants {
		for _, first := range []int{0, 1} {
			// a text of its own per case, so that no earlier case has filled the cache
			nonce := fmt.Sprintf("<%%# near %d.%d %%>", i, first)
			pair := []string{nonce + base, nonce + va.text}
			if !b.Begin(fmt.Sprintf("near texts (%s), %d first: %q / %q", va.name, first, pair[0], pair[1])) {
				continue
			}
			b.NonTrivialStr("near-texts", va.name, fmt.Sprint(first))
			b.Count("near-texts:" + va.name)
			ref := []R{run(pair[0], false), run(pair[1], false)}
			for step, k := range []int{first, 1 - first, first, 1 - first} {
				got := run(pair[k], true)
				if got.Pan != nil {
					b.Violate(got.Pan.Sig(), got.Pan.Value)
					break
				}
				if (got.Err == nil) != (ref[k].Err == nil) || got.Out != ref[k].Out {
					b.Violate("depends-on-earlier-renders|cache-on|near-texts|"+va.name, fmt.Sprintf("step %d renders %q\ncache off: %s\ncache on, after its near twin: %s", step, pair[k], ref[k], got))
					break
				}
			}
		}
	}
}

// c13MadeInTheTemplate: values that a template makes while it runs (iterators) are new
// objects in every execution; nothing about their identity may reach output or error text.
func c13MadeInTheTemplate(b *core.B) {
	for _, t := range []string{
		`<%= "" + [range(1, 2)] %>`, `<%= "x" + [until(3), between(1, 4)] %>`, `<%= inspect([range(1, 2)]) %>`, `<%= debug({"r": until(3)}) %>`,
		`<%= truncate([until(2)], {}) %>`, `<% let it = range(1, 3) %><%= for (x) in [it] { %><%= "" + [x] %><% } %>`, `<%= inspect([groupBy(2, [1, 2, 3])]) %>`, `<%= "" + [fn(a) { return a }] == "" %>`,
		// a function value is not a door to the parsed template: nothing a template does with it may change (or show
		// the addresses of) the tree that the next execution runs
		"<% let f = fn() { %>A<% \"x\" %>B<% } %><%= f() %>|<% f.Block.Statements[0] = f.Block.Statements[2] %><%= f() %>",
		`<% let f = fn(a, b) { return a } %><%= f(1, 2) %>|<% f.Parameters[0] = f.Parameters[1] %><%= f(1, 2) %>`,
		`<% let f = fn() { if (false) { return 1 } else if (true) { return 2 } } %><%= inspect(f.Block.Statements[0].Expression.ElseIf) %>`,
		`<% let f = fn(a) { return a } %><% let g = fn(a) { return 5 } %><% f.Block = g.Block %><%= f(1) %>`,
	} {
		if !b.Begin("made in the template: " + t) {
			continue
		}
		b.NonTrivialStr("made-in-template", t)
		b.Count("values-made-while-executing")
		tm, err := plush.NewTemplate(t)
		if err != nil {
			continue
		}
		var outs []string
		pan := core.Guard(func() {
			for i := 0; i < 4; i++ {
				s, err := tm.Exec(plush.NewContext())
				outs = append(outs, fmt.Sprintf("%q %v", s, err))
			}
			// ... and a fresh parse of the same text
			if t2, err := plush.NewTemplate(t); err == nil {
				s, err := t2.Exec(plush.NewContext())
				outs = append(outs, fmt.Sprintf("%q %v", s, err))
			}
		})
		if pan != nil {
			b.Violate(pan.Sig(), pan.Value)
			continue
		}
		for _, o := range outs[1:] {
			if o != outs[0] {
				b.Violate("nondeterministic-output|repeated-exec|object-identity-in-text", fmt.Sprintf("first execution: %s; later execution: %s", outs[0], o))
				break
			}
		}
	}
}

// c13ErrorTexts: equal text and equal data give the same error, word for word, every time
// (names that are near a misspelt one, helper lists, maps printed in a message ...).
func c13ErrorTexts(b *core.B) {
	for _, t := range []string{
		`<%= postz %>`, `<%= post %>`, `<% posq = 1 %>`, `<%= lenn(xs) %>`, `<%= rangee(1, 2) %>`, `<%= mp.nokey.x %>`, `<%= truncate(mp, {}) %>`, `<%= tt.Nope %>`, `<%= xs[9] %>`,
		`<%= partial("nosuch") %>`, `<%= contentOf("nosuch") %>`, `<%= two(1) %>`, `<%= mp["a"]["b"] %>`, `<% let f = fn(a, b) { return a } %><%= f(1, 2, 3) + f() %>`,
	} {
		if !b.Begin("error text: " + t) {
			continue
		}
		b.NonTrivialStr("error-text", t)
		b.Count("error-texts-repeated")
		var outs []string
		pan := core.Guard(func() {
			for i := 0; i < 24; i++ {
				ctx := progCtx(nil)
				for _, n := range []string{"posta", "postb", "posts", "postx", "len1", "len2", "mp1", "mp2", "xs1", "xs2"} {
					ctx.Set(n, 1)
				}
				ctx.Set("two", func(a, b int) int { return a })
				var s string
				var err error
				if i%2 == 0 {
					s, err = plush.Render(t, ctx)
				} else {
					tm, perr := plush.NewTemplate(t)
					if perr != nil {
						err = perr
					} else {
						s, err = tm.Exec(ctx)
					}
				}
				outs = append(outs, fmt.Sprintf("%q %v", s, err))
			}
		})
		if pan != nil {
			b.Violate(pan.Sig(), pan.Value)
			continue
		}
		for _, o := range outs[1:] {
			if o != outs[0] {
				b.Violate("nondeterministic-error|repeated-exec", fmt.Sprintf("first execution: %s; later execution: %s", outs[0], o))
				break
			}
		}
	}
}

// c13NestedFailure: a partial that includes itself fails at the innermost level, inside a helper
// block; the error (its line numbers included) is the same with the cache off, cold and warm.
func c13NestedFailure(b *core.B) {
	c13NestedFailureOf(b, "<%= cap() { %>\n<%= if (depth == 0) { %><%= boom() %><% } else { %>\n\n<%= partial(\"node\", {depth: depth - 1}) %><% } %>\n<% } %>")
	// the failing statement sits in a template function that the outermost run defined and the innermost run calls
	c13NestedFailureOf(b, "<% if (depth == 2) { let f = fn() {\n\n return boom()\n} } %>\nx\n<%= if (depth == 0) { %>\n<%= f() %><% } else { %>\n\n<%= partial(\"node\", {depth: depth - 1}) %><% } %>\n")
	// ... in a block that the outermost run stored and the innermost run replays
	c13NestedFailureOf(b, "<% if (depth == 2) { contentFor(\"st\") { %>\n\n<%= boom() %><% } } %>\nx\n<%= if (depth == 0) { %>\n<%= contentOf(\"st\") %><% } else { %>\n\n<%= partial(\"node\", {depth: depth - 1}) %><% } %>\n")
}

func c13NestedFailureOf(b *core.B, node string) {
	const input = `<%= partial("node", {depth: 2}) %>`
	if !b.Begin("nested failure in a self-including partial: " + node) {
		return
	}
	b.NonTrivialStr("nested-failure", node)
	b.Count("self-including-partial-failing-at-the-innermost-level")
	var outs []string
	pan := core.Guard(func() {
		defer func() { plush.CacheEnabled = false }()
		for _, cache := range []bool{false, false, true, true, true, false} {
			plush.CacheEnabled = cache
			ctx := progCtx(nil)
			ctx.Set("boom", func() (string, error) { return "", errors.New("boom") })
			ctx.Set("partialFeeder", func(string) (string, error) { return node, nil })
			s, err := plush.Render(input, ctx)
			outs = append(outs, fmt.Sprintf("cache=%v: %q %v", cache, s, err))
		}
	})
	if pan != nil {
		b.Violate(pan.Sig(), pan.Value)
		return
	}
	strip := func(s string) string { return s[strings.Index(s, ": ")+2:] }
	for _, o := range outs[1:] {
		if strip(o) != strip(outs[0]) {
			b.Violate("nondeterministic-error|cache-on-vs-off|self-including-partial", fmt.Sprintf("%s; %s", outs[0], o))
			return
		}
	}
}

// c13AfterAFailedExecution: an execution that fails while a break from a helper's block is still
// on its way to the loop leaves nothing behind for the executions that follow.
func c13AfterAFailedExecution(b *core.B) {
	const failing = `<%= for (i) in [1, 2] { %><%= contentOf("missing") { %>x<% break %><% } + 1 %><% } %>`
	const after = `<%= if (true) { %>shown<% } %>|<%= for (i) in [1, 2, 3] { %>[<%= i %>]<% } %>|<%= cap() { %>c<% } %>`
	if !b.Begin("after a failed execution: " + failing + " then " + after) {
		return
	}
	b.NonTrivialStr("after-failed-execution")
	b.Count("execution-after-one-that-failed-with-a-pending-break")
	var outs []string
	pan := core.Guard(func() {
		tf, _ := plush.NewTemplate(failing)
		ta, _ := plush.NewTemplate(after)
		for i := 0; i < 6; i++ {
			if tf != nil {
				_, _ = tf.Exec(progCtx(nil))
			}
			s, err := ta.Exec(progCtx(nil))
			outs = append(outs, fmt.Sprintf("%q %v", s, err))
		}
	})
	if pan != nil {
		b.Violate(pan.Sig(), pan.Value)
		return
	}
	for _, o := range outs {
		if o != `"shown|[1][2][3]|(c)" <nil>` {
			b.Violate("nondeterministic-output|after-a-failed-execution", fmt.Sprintf("want \"shown|[1][2][3]|(c)\", got %s (all: %v)", o, outs))
			return
		}
	}
}

func c13Run(b *core.B) {
	if b.Batch == 0 {
		c13AfterAFailedExecution(b)
		c13NestedFailure(b)
		c13SameNamedTypes(b)
		c13SameNamedMethods(b)
		c13NearTexts(b)
		c13MadeInTheTemplate(b)
		c13ErrorTexts(b)
	}
	r := b.Rng(1)
	nProg, reps := 2000, 30
	if b.Tier == core.Thorough {
		nProg, reps = 20000, 300
	}
	defer func() { plush.CacheEnabled = false }()
	nonce := 0
	for i := 0; i < nProg/b.NBatches; i++ {
		// m templates executed in an interleaved history
		m := r.Range(1, 4)
		progs := make([]*pProg, m)
		texts := make([]string, m)
		for j := range progs {
			progs[j] = genProgram(r, 2, func(g *pGen) { g.hashBias = true; g.partials = true })
			texts[j] = progs[j].canonical()
			if j == m-1 && i%4 == 1 {
				// a template with a syntax error: every execution route must
				// report the same error, however often it is tried
				progs[j] = &pProg{features: map[string]bool{"syntax-error": true}}
				texts[j] = "<p>shown</p><% if ( %>never" + texts[j]
			}
			if j == 0 && i%3 == 0 {
				// re-entrant execution of one template
				progs[j] = &pProg{features: map[string]bool{"self-recursive-partial": true, "partial": true}}
				texts[j] = c13Self
			}
		}
		if !b.Begin(strings.Join(texts, "\n=====\n")) {
			continue
		}
		// every text is executed with two different data sets; each (text, data)
		// pair has its own reference, so anything cached by text or name alone
		// shows up as the other data set's result
		ref := make([]*c13Obs, 2*m)
		variant := 0
		judge := func(jt int, how string, o c13Obs, ok bool) bool {
			if !ok {
				return false
			}
			j := 2*jt + variant
			b.Count("exec:" + how)
			if ref[j] == nil {
				oc := o
				ref[j] = &oc
				return true
			}
			if o != *ref[j] {
				what := "output"
				if o.err != ref[j].err {
					what = "error"
				} else if o.trace != ref[j].trace {
					what = "side-effect-order"
				}
				cls := "plain"
				if progs[jt].features["side-effect-in-hash"] || progs[jt].features["hash-literal"] {
					cls = "hash-literal"
				}
				if progs[jt].features["partial"] {
					cls = "with-partial"
				}
				b.ViolateIn("nondeterministic-"+what+"|"+how+"|"+cls, texts[jt], fmt.Sprintf("data set %d, first execution: %s\nthis execution (%s): %s", variant, *ref[j], how, o))
				return false
			}
			return true
		}
		good := true
		// --- cache off
		plush.CacheEnabled = false
		tmpls := make([]*plush.Template, m)
		for j := range texts {
			t, err := plush.NewTemplate(texts[j])
			if err != nil {
				tmpls[j] = nil
				o, ok := c13Exec(b, "render", variant, func(ctx *plush.Context) (string, error) { return plush.Render(texts[j], ctx) })
				good = judge(j, "render/parse-error", o, ok) && good
				continue
			}
			tmpls[j] = t
		}
		k := r.Range(3, 8)
		for step := 0; step < k && good; step++ {
			j := r.Intn(m)
			variant = r.Intn(2)
			t := tmpls[j]
			if t == nil {
				continue
			}
			c13SelfText = texts[j]
			prog := plush.VerifProgram(t)
			before := programHash(prog)
			how := pick(r, []string{"exec", "exec", "clone-exec", "render", "parse-exec"})
			var o c13Obs
			var ok bool
			switch how {
			case "exec":
				o, ok = c13Exec(b, how, variant, func(ctx *plush.Context) (string, error) { return t.Exec(ctx) })
			case "clone-exec":
				c := t.Clone()
				o, ok = c13Exec(b, how, variant, func(ctx *plush.Context) (string, error) { return c.Exec(ctx) })
				if ok && plush.VerifProgram(c) != prog && programHash(plush.VerifProgram(c)) != before {
					b.ViolateIn("clone-differs", texts[j], "the clone's program is neither shared nor structurally equal")
				}
			case "render":
				o, ok = c13Exec(b, how, variant, func(ctx *plush.Context) (string, error) { return plush.Render(texts[j], ctx) })
			case "parse-exec":
				o, ok = c13Exec(b, how, variant, func(ctx *plush.Context) (string, error) {
					t2, err := plush.Parse(texts[j])
					if err != nil {
						return "", err
					}
					return t2.Exec(ctx)
				})
			}
			good = judge(j, "cache-off/"+how, o, ok) && good
			if after := programHash(prog); after != before {
				b.ViolateIn("program-modified-by-exec|"+how, texts[j], fmt.Sprintf("structural hash of the parsed program changed during %s: %x -> %x", how, before, after))
				good = false
			}
		}
		// --- cache on: cold (never-seen text through a nonce comment tag) then warm
		plush.CacheEnabled = true
		for j := 0; j < m && good; j++ {
			nonce++
			variant = r.Intn(2)
			tn := texts[j] + fmt.Sprintf("<%%# nonce %d-%d-%d %%>", b.Batch, i, nonce)
			c13SelfText = tn
			o, ok := c13Exec(b, "cold", variant, func(ctx *plush.Context) (string, error) { return plush.Render(tn, ctx) })
			good = judge(j, "cache-on/cold-render", o, ok) && good
			var cached *plush.Template
			for w := 0; w < 3 && good; w++ {
				variant = w % 2 // the warm template is executed with both data sets
				o, ok = c13Exec(b, "warm", variant, func(ctx *plush.Context) (string, error) {
					t, err := plush.Parse(tn)
					if err != nil {
						return "", err
					}
					cached = t
					before := programHash(plush.VerifProgram(t))
					s, err := t.Exec(ctx)
					if after := programHash(plush.VerifProgram(t)); after != before {
						b.ViolateIn("program-modified-by-exec|cached", texts[j], "structural hash of the cached program changed during Exec")
					}
					return s, err
				})
				good = judge(j, "cache-on/warm-parse-exec", o, ok) && good
			}
			if cached != nil && good {
				t2, _ := plush.Parse(tn)
				if t2 != cached {
					b.Count("cache:not-served-from-cache")
				} else {
					b.Count("cache:served-from-cache")
				}
			}
		}
		plush.CacheEnabled = false
		// --- repeats: Go map order nondeterminism is probabilistic
		for j := 0; j < m && good; j++ {
			c13SelfText = texts[j]
			for rep := 0; rep < reps && good; rep++ {
				variant = rep % 2
				o, ok := c13Exec(b, "repeat", variant, func(ctx *plush.Context) (string, error) { return plush.Render(texts[j], ctx) })
				good = judge(j, "repeat-fresh-parse", o, ok) && good
			}
		}
		for j := range progs {
			b.NonTrivialStr(texts[j])
			for f := range progs[j].features {
				b.Count("program:" + f)
			}
		}
		if i < 2 {
			b.Sample(map[string]any{"templates": texts, "first_result": fmt.Sprint(ref[0])})
		}
	}
}

func init() {
	core.Register(&core.Prop{
		ID:      "C13",
		Level:   "exploration",
		Rule:    "programs from the shared generator biased towards hash literals with 1-5 entries, duplicate keys and values wrapped in a recording helper; per case a history over 1-4 templates: 3-8 interleaved executions chosen from {Exec, Clone().Exec, Render, Parse+Exec} with the cache off, then with the cache on a cold render of a never-seen text (nonce comment tag) and two warm Parse+Exec, then 30 (quick) / 300 (thorough) repeats of Render with a fresh parse (Go map order is probabilistic). Every execution gets a freshly built, equal context. Oracle: all outputs, error texts (0x addresses normalised) and recorded side-effect traces of one text are identical; a pointer-identity-aware deep structural hash of the parsed program (hook H2) is equal before and after every Exec, also for cached templates. Non-trivial = every generated template (distinct by hash).",
		Assume:  []string{"for loops over Go maps have order-insensitive bodies (the licensed variation)", "plush.CacheEnabled is toggled by the single-threaded worker only"},
		Batches: batchesQT(16, 64),
		Run:     c13Run,
	})
}
