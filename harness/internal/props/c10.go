package props

import (
	"context"
	"fmt"
	"reflect"
	"strings"

	"github.com/gobuffalo/plush/v5"

	"verifharness/internal/core"
)

// C10 — Context behaves as a chain of scopes for every history of
// New / Set / Value / Has. Reference model: CtxTree.

var c10Keys = []string{"a", "b", "len"}
var c10Vals = []interface{}{1, 2, nil}

type c10Op struct {
	new bool
	i   int // context index
	k   int // key index
	v   int // value index
}

func (o c10Op) String() string {
	if o.new {
		return fmt.Sprintf("c%d.New()", o.i)
	}
	return fmt.Sprintf("c%d.Set(%q, %v)", o.i, c10Keys[o.k], c10Vals[o.v])
}

// model
type mCtx struct {
	data   map[string]string // key -> "1" "2" "nil" "BUILTIN"
	parent *mCtx
}

func (m *mCtx) value(k string) string {
	for c := m; c != nil; c = c.parent {
		if v, ok := c.data[k]; ok {
			return v
		}
	}
	return "nil"
}

type c10Root struct {
	name string
	mk   func() *plush.Context
	data map[string]interface{}
}

func c10Roots() []c10Root {
	withData := func(d map[string]interface{}) func() *plush.Context {
		return func() *plush.Context {
			cp := map[string]interface{}{}
			for k, v := range d {
				cp[k] = v
			}
			return plush.NewContextWith(cp)
		}
	}
	type wk struct{}
	roots := []c10Root{
		{name: "NewContext()", mk: plush.NewContext},
		{name: "NewContextWithContext(ctx)", mk: func() *plush.Context {
			return plush.NewContextWithContext(context.WithValue(context.Background(), wk{}, 9))
		}},
		{name: "NewContextWithContext(ctx carrying the string key \"wrapped\")", mk: func() *plush.Context {
			return plush.NewContextWithContext(context.WithValue(context.Background(), "wrapped", 7))
		}},
	}
	for _, d := range []map[string]interface{}{
		{},
		{"a": 1},
		{"len": 2},
		{"len": nil},
		{"a": nil, "b": 2},
		{"a": 2, "len": 1},
	} {
		roots = append(roots, c10Root{name: fmt.Sprintf("NewContextWith(%v)", d), mk: withData(d), data: d})
	}
	return roots
}

func valName(v interface{}, builtin uintptr) string {
	switch t := v.(type) {
	case nil:
		return "nil"
	case int:
		return fmt.Sprint(t)
	}
	rv := reflect.ValueOf(v)
	if rv.Kind() == reflect.Func && rv.Pointer() == builtin {
		return "BUILTIN"
	}
	return fmt.Sprintf("OTHER(%T)", v)
}

// c10Drive executes a history on fresh real contexts and on the model and
// compares every observation after the last operation (all prefixes are
// histories of their own).
func c10Drive(b *core.B, root c10Root, hist []c10Op, builtin uintptr, checkEvery bool) {
	desc := func() string {
		ss := []string{"c0 := " + root.name}
		n := 1
		for _, o := range hist {
			if o.new {
				ss = append(ss, fmt.Sprintf("c%d := %s", n, o))
				n++
			} else {
				ss = append(ss, o.String())
			}
		}
		return strings.Join(ss, "; ")
	}
	var impl []*plush.Context
	var model []*mCtx
	pan := core.Guard(func() {
		impl = []*plush.Context{root.mk()}
		rm := &mCtx{data: map[string]string{}}
		for k, v := range root.data {
			rm.data[k] = valName(v, builtin)
		}
		if _, ok := rm.data["len"]; !ok {
			rm.data["len"] = "BUILTIN"
		}
		model = []*mCtx{rm}
		for step, o := range hist {
			if o.new {
				impl = append(impl, impl[o.i].New().(*plush.Context))
				model = append(model, &mCtx{data: map[string]string{}, parent: model[o.i]})
			} else {
				impl[o.i].Set(c10Keys[o.k], c10Vals[o.v])
				model[o.i].data[c10Keys[o.k]] = valName(c10Vals[o.v], builtin)
			}
			if !checkEvery && step != len(hist)-1 {
				continue
			}
			for j := range impl {
				for _, k := range []string{"a", "b", "len", "neverset"} {
					want := model[j].value(k)
					got := valName(impl[j].Value(k), builtin)
					has := impl[j].Has(k)
					if got != want {
						cls := "plain-key"
						if k == "len" {
							cls = "builtin-name"
						}
						b.ViolateIn("wrong-value|"+cls+"|want="+want+"|got="+got, desc(), fmt.Sprintf("after step %d (%s): c%d.Value(%q) = %s, the chain-of-scopes model says %s", step+1, o, j, k, got, want))
						return
					}
					if has != (want != "nil") {
						b.ViolateIn("wrong-has|"+k, desc(), fmt.Sprintf("after step %d: c%d.Has(%q) = %v but Value is %s", step+1, j, k, has, want))
						return
					}
				}
				// a name found only in the wrapped context.Context was never Set: what Value gives for
				// it is not modelled, but Has must agree with it on every context of the tree
				if has, val := impl[j].Has("wrapped"), impl[j].Value("wrapped"); has != (val != nil) {
					b.ViolateIn("wrong-has|wrapped-context-key", desc(), fmt.Sprintf("after step %d: c%d.Has(\"wrapped\") = %v but Value(\"wrapped\") = %v", step+1, j, has, val))
					return
				}
				_ = impl[j].Value(5) // non-string key: no-panic monitor only
			}
		}
	})
	if pan != nil {
		b.ViolateIn(pan.Sig(), desc(), pan.Value)
	}
}

func c10Run(b *core.B) {
	builtin := reflect.ValueOf(plush.Helpers.All()["len"]).Pointer()
	L := 5
	if b.Tier == core.Thorough {
		L = 6
	}
	roots := c10Roots()
	var idx int64
	hist := make([]c10Op, 0, L)
	var dfs func(root c10Root, live int)
	dfs = func(root c10Root, live int) {
		if len(hist) > 0 {
			idx++
			if b.Mine(idx) {
				if b.Begin(root.name + " " + fmt.Sprint(hist)) {
					c10Drive(b, root, hist, builtin, false)
					b.NonTrivialDistinct()
					if idx%100003 == 0 {
						b.Sample(map[string]any{"root": root.name, "history": fmt.Sprint(hist)})
					}
				}
			}
		}
		if len(hist) == L {
			return
		}
		if live < 4 {
			for i := 0; i < live; i++ {
				hist = append(hist, c10Op{new: true, i: i})
				dfs(root, live+1)
				hist = hist[:len(hist)-1]
			}
		}
		for i := 0; i < live; i++ {
			for k := range c10Keys {
				for v := range c10Vals {
					hist = append(hist, c10Op{i: i, k: k, v: v})
					dfs(root, live)
					hist = hist[:len(hist)-1]
				}
			}
		}
	}
	for _, root := range roots {
		dfs(root, 1)
	}
	b.CountN("exhaustive-histories", idx)

	// Has(k) is true exactly when Value(k) is non-nil - also for a helper that
	// is registered globally after the contexts were made (model-free invariant)
	if b.Begin("late helper registration: Has(k) == (Value(k) != nil) on old and new contexts") {
		pan := core.Guard(func() {
			root := plush.NewContextWith(map[string]interface{}{"a": 1})
			child := root.New().(*plush.Context)
			grand := child.New().(*plush.Context)
			name := fmt.Sprintf("lateHelper%d", b.Batch)
			plush.Helpers.Add(name, func() string { return "late" })
			fresh := plush.NewContext()
			all := map[string]*plush.Context{"root made before": root, "child made before": child, "grandchild made before": grand,
				"child made after": root.New().(*plush.Context), "root made after": fresh, "child of root made after": fresh.New().(*plush.Context)}
			for which, c := range all {
				for _, k := range []string{name, "a", "len", "neverset"} {
					if has, val := c.Has(k), c.Value(k); has != (val != nil) {
						b.Violate("has-disagrees-with-value|late-helper", fmt.Sprintf("%s: Has(%q) = %v but Value(%q) = %v", which, k, has, k, val))
						return
					}
				}
			}
			// nobody has stored anything under the name: every context of the tree gives the
			// same answer, whenever it was made (there is no nearest context that has it)
			for which, c := range all {
				if strings.HasSuffix(which, "made before") || which == "child made after" {
					if (c.Value(name) == nil) != (root.Value(name) == nil) {
						b.Violate("wrong-value|late-helper-known-in-part-of-the-tree", fmt.Sprintf("%s: Value(%q) = %s, its root says %s", which, name, valName(c.Value(name), 0), valName(root.Value(name), 0)))
						return
					}
				}
			}
			// a value the user stores under the helper's name on an old root wins in all its
			// descendants, also in those made after the helper was registered
			lateChild := root.New().(*plush.Context)
			root.Set(name, 1)
			for which, c := range map[string]*plush.Context{"child made before": child, "grandchild made before": grand, "child made after the registration": lateChild, "grandchild made after": lateChild.New().(*plush.Context)} {
				if v := c.Value(name); v != 1 {
					b.Violate("wrong-value|builtin-name|late-helper-hides-user-value", fmt.Sprintf("root.Set(%q, 1) after the helper was registered: %s sees %v", name, which, valName(v, 0)))
					return
				}
			}
			// ... a nil included
			root.Set(name, nil)
			for which, c := range map[string]*plush.Context{"root": root, "child made before": child, "grandchild made before": grand, "child made after the registration": lateChild} {
				if v := c.Value(name); v != nil || c.Has(name) {
					b.Violate("wrong-value|builtin-name|late-helper-hides-user-nil", fmt.Sprintf("root.Set(%q, nil) after the helper was registered: %s sees %v, Has = %v", name, which, valName(v, 0), c.Has(name)))
					return
				}
			}
			if fresh.Value(name) == nil {
				b.Violate("late-helper-missing-in-new-root", "a helper added to plush.Helpers is not visible in a context made afterwards")
			}
		})
		if pan != nil {
			b.Violate(pan.Sig(), pan.Value)
		}
		b.NonTrivialStr("late-helper", fmt.Sprint(b.Batch))
	}

	// long random histories on up to 8 contexts, checked after every operation
	r := b.Rng(4)
	n := 10000
	if b.Tier == core.Thorough {
		n = 100000
	}
	for i := 0; i < n/b.NBatches; i++ {
		root := roots[r.Intn(len(roots))]
		var h []c10Op
		live := 1
		for s := 0; s < 200; s++ {
			if live < 8 && r.Chance(1, 6) {
				h = append(h, c10Op{new: true, i: r.Intn(live)})
				live++
			} else {
				h = append(h, c10Op{i: r.Intn(live), k: r.Intn(3), v: r.Intn(3)})
			}
		}
		if !b.Begin(root.name + " random history " + fmt.Sprint(i)) {
			continue
		}
		c10Drive(b, root, h, builtin, true)
		b.NonTrivialStr(root.name, fmt.Sprint(h))
		b.Count("random-long-histories")
	}

	// deep chains: 20-90 scopes below one another (nested loops, recursion and partials
	// make such chains), values set on ancestors before and after their descendants exist
	nd := 64
	if b.Tier == core.Thorough {
		nd = 4000
	}
	for i := 0; i < nd/b.NBatches+1; i++ {
		root := roots[r.Intn(len(roots))]
		var h []c10Op
		depth := r.Range(20, 90)
		live := 1
		for live <= depth {
			if r.Chance(1, 4) {
				h = append(h, c10Op{i: r.Intn(live), k: r.Intn(3), v: r.Intn(3)})
			}
			h = append(h, c10Op{new: true, i: live - 1})
			live++
		}
		for s := 0; s < 60; s++ {
			if r.Chance(1, 10) {
				h = append(h, c10Op{new: true, i: r.Intn(live)})
				live++
			} else {
				h = append(h, c10Op{i: r.Intn(live), k: r.Intn(3), v: r.Intn(3)})
			}
		}
		if !b.Begin(root.name + " deep chain " + fmt.Sprint(i)) {
			continue
		}
		c10Drive(b, root, h, builtin, true)
		b.NonTrivialStr(root.name, "deep", fmt.Sprint(h))
		b.Count("deep-chain-histories")
		b.Count(fmt.Sprintf("deep-chain-depth>=%d", depth/10*10))
	}
}

func init() {
	core.Register(&core.Prop{
		ID:         "C10",
		Level:      "exploration",
		Rule:       "operations New(i) (at most 4 live contexts) and Set(i, k, v) with k in {a, b, len (a built-in helper's name)} and v in {1, 2, nil}, from 9 kinds of root (NewContext, NewContextWithContext with and without a string key in the wrapped context, NewContextWith over 6 data maps incl. user values and a user nil under the built-in's name); every history of length 1..5 (quick) / 1..6 (thorough) is enumerated without state merging and re-driven on fresh real contexts; after its last operation Value(k) and Has(k) of every live context for k in {a, b, len, a never-set key} are compared with the chain-of-scopes reference model (all prefixes are histories of their own, so every intermediate state is checked too); plus 10k (100k) random histories of length 200 on up to 8 contexts checked after every operation; plus 64 (4000) histories on chains of 20-90 nested scopes with Sets on ancestors before and after their descendants exist. All histories are distinct by construction.",
		Assume:     []string{"keys reachable only through a wrapped context.Context are not compared", "the caller's map passed to NewContextWith is not inspected"},
		Batches:    batchesQT(32, 128),
		Run:        c10Run,
		Exhaustive: func(core.Tier) bool { return true },
	})
}
