package props

import (
	"errors"
	"fmt"
	"html/template"
	"regexp"
	"strconv"
	"strings"

	"github.com/gobuffalo/plush/v5"

	"verifharness/internal/core"
)

// C15 — every template error names the line of the failing tag, and the
// number shifts by exactly k when k lines of literal text are put in front.

var c15Benign = []string{
	"plain text\n",
	"<p>html &amp; text</p>\n",
	"\n",
	"text with crlf\r\n",
	"<% let a1 = 1 %>\n",
	"<%= 1 %> and <%= \"two\" %>\n",
	"<% let b1 =\n  2 %>\n",
	"<%= \"a\nb\" %>\n",
	"<%= `back\nquoted\nstring` %>\n",
	"<%# a\nmulti-line\ncomment %>\n",
	"<%# one-line comment %> tail\n",
	"<%\n# line comment\nlet c1 = 3\n%>\n",
	"<%= if (true) { %>\n  inside\n<% } %>\n",
	"<%= for (x) in [1, 2] { %>\n  item <%= x %>\n<% } %>\n",
	"<% let f1 = fn(x) {\n  return x\n} %>\n",
	"<%= cap() { %>\n block \n<% } %>\n",
	"\\<%= escaped %>\n",
	"<%= \"str with %> inside\" %>\n",
	"a\n\n\nb\n",
	"<%= if (false) { %>\nno\n<% } else { %>\nyes\n<% } %>\n",
	// a line break right after each thing the lexer treats specially in text and in tags
	"an escaped opener ends the line \\<%\n",
	"\\<%\n\\<%\n",
	"\\<%\r\n%>\n",
	"two backslashes before a tag \\\\<%= 1 %>\n",
	"text ending in a backslash \\\n",
	"<%= 1 %>\r\n\r\n",
	"<%\n\n%>\n",
	"<%= \"a\\\"\nb\" %>\n",
	"<%= `a` %>\\<%\n",
	"<% let d1 = 4 # comment at the end\n %>\n",
	"<%= [1,\n2,\n3] %>\n<%= {\"k\":\n1}[\"k\"] %>\n",
}

type c15Fault struct {
	name   string
	tag    string
	syntax bool
}

var c15Faults = []c15Fault{
	{"unknown-identifier", "<%= nope %>", false},
	{"failing-helper", "<%= fail() %>", false},
	{"type-error", "<%= 1 + true %>", false},
	{"index-out-of-range", "<%= xs[9] %>", false},
	{"division-by-zero", "<%= 1 / 0 %>", false},
	{"missing-member", "<%= tt.Nope %>", false},
	{"unknown-function", "<%= nofn(1) %>", false},
	{"bad-argument", "<%= ci(\"s\") %>", false},
	{"silent-unknown-identifier", "<% nope %>", false},
	{"let-unknown-identifier", "<% let z9 = nope %>", false},
	{"assign-unknown-target", "<% nope = 1 %>", false},
	{"partial-missing", "<%= partial(\"missing\") %>", false},
	// the failing statement starts on the tag's first line and the tag goes on over further lines
	{"multiline:unknown-identifier", "<%= nope +\n  1 %>", false},
	{"multiline:failing-helper", "<%= fail(\n) %>", false},
	{"multiline:index-out-of-range", "<%= xs[\n  9\n] %>", false},
	{"multiline:division-by-zero", "<%= 1 /\n\n0 %>", false},
	{"multiline:string-with-newline", "<%= nope + \"a\nb\" %>", false},
	{"multiline:trailing-comment", "<%= nope # why\n %>", false},
	// the failing statement first runs a block successfully (a function body, a
	// helper block) and then fails: the line is still the tag's
	{"fails-after-function-call-in-same-statement", "<%= okfn() + nope %>", false},
	{"fails-after-helper-block-in-same-statement", "<%= two(cap() { %>b<% }, nope) %>", false},
	{"fails-after-function-call-in-argument", "<%= ci(okfn(), \"s\") %>", false},
	// the failing statement is in another template (a partial): the line is the partial tag's
	{"fails-inside-a-partial", "<%= partial(\"fails-on-line-3\") %>", false},
	{"fails-inside-a-helper-block-of-a-partial", "<%= partial(\"fails-in-a-helper-block-on-line-4\") %>", false},
	{"fails-inside-a-function-of-a-partial", "<%= partial(\"fails-in-a-function-on-line-2\") %>", false},
	// ... or runs a block whose failure the helper keeps to itself
	{"fails-after-swallowed-block-error-in-same-statement", "<%= two(swallow() { %>\n\nb<%= nope %>\n<% }, 1 / 0) %>", false},
	{"fails-after-tolerated-unknown-name-in-same-statement", "<%= two(nope == nil, !nope) + (1 / 0) %>", false},
	// one mistake whose follow-up messages are on later lines: the error still
	// starts with the line of the failing tag
	{"cascade-on-later-lines", "<% if (true) %>\nmid\n<% } else { %>\nq\n<% } %>", true},
	{"cascade-two-lines-down", "<%= for (x) in %>\n\n<% } %>", true},
	{"unclosed-paren", "<%= (1 %>", true},
	{"no-prefix-fn", "<%= * 2 %>", true},
	{"bad-let", "<% let = 1 %>", true},
	{"bad-let-no-ident", "<% let 1 = 1 %>", true},
	{"bad-if", "<% if true { %>x<% } %>", true},
	{"bad-for", "<% for x in xs { %>x<% } %>", true},
	{"hash-missing-colon", "<%= {a 1} %>", true},
	{"illegal-character", "<%= 1 @ 2 %>", true},
	{"break-outside-loop", "<% break %>", true},
	{"continue-outside-loop", "<% continue %>", true},
	{"overlong-integer", "<%= 99999999999999999999 %>", true},
	{"malformed-float", "<%= 1.2.3 %>", true},
	{"unclosed-bracket", "<%= [1, 2 %>", true},
	{"bad-index", "<%= xs[ %>", true},
	{"missing-operand", "<%= 1 + %>", true},
}

// containers put the failing tag inside a body that spans lines; pre/post
// are the lines before and after the tag's own line.
var c15Containers = []struct {
	name, pre, post string
	runtimeOnly     bool
}{
	{"top", "", "", false},
	{"if", "<%= if (true) { %>\n  t\n", "\n<% } %>\n", false},
	{"else", "<%= if (false) { %>\n  t\n<% } else { %>\n", "\n<% } %>\n", false},
	{"for", "<%= for (x) in [1] { %>\n  <%= x %>\n", "\n<% } %>\n", false},
	{"fn-body", "<% let f2 = fn() { %>\n  t\n", "\n<% } %>\n<%= f2() %>\n", false},
	{"helper-block", "<%= cap() { %>\n  t\n", "\n<% } %>\n", false},
	{"contentFor", "<% contentFor(\"c\") { %>\n  t\n", "\n<% } %>\n<%= contentOf(\"c\") %>\n", true},
	{"helper-block-in-helper-block", "<%= cap() { %>\n  t\n<%= cap() { %>\n  u\n", "\n<% } %>\n<% } %>\n", false},
	{"default-block-of-contentOf-in-helper-block", "<%= cap() { %>\n  t\n<%= contentOf(\"nosuch\") { %>\n  u\n", "\n<% } %>\n<% } %>\n", false},
	{"three-helper-blocks-deep", "<%= cap() { %>\n<%= cap() { %>\n\n<%= cap() { %>\n", "\n<% } %>\n<% } %>\n<% } %>\n", false},
	{"nested-if-for", "<%= if (true) { %>\n<%= for (x) in [1] { %>\n", "\n<% } %>\n<% } %>\n", false},
	{"after-executed-block", "<%= if (true) { %>\n  t <%= 1 %>\n<% } %>\nmid\n", "\n", false},
	{"after-multi-line-string-with-escaped-quotes", "<% let ms = \"one\ntwo \\\"q\\\" three\nfour \\\"\nfive\" %>\n<% let bs = `a\nb \\` %>\n", "\n", false},
	{"after-executed-loop", "<%= for (x) in [1, 2] { %>\n  <%= x %>\n<% } %>\n", "\n", false},
	{"after-helper-block", "<%= cap() { %>\n b \n<% } %>\n", "\n", false},
	{"after-fn-call", "<% let f3 = fn() {\n let q = 1\n return q\n} %>\n<%= f3() %>\n", "\n", false},
	{"after-partial", "<%= partial(\"ok\") %>\n", "\n", true},
	{"after-error-swallowed-by-a-helper", "<%= swallow() { %>\n  a <%= nope %>\n<% } %>\n", "\n", false},
	{"after-tolerated-unknown-names", "<%= if (nope) { %>T<% } %>\n<%= !nope %><%= nope == nil %>\n", "\n", false},
	{"after-swallowed-error-in-condition", "<%= if (tt.Next.Name) { %>\nT\n<% } %>\n", "\n", false},
}

var reLine = regexp.MustCompile(`(?m)^line (\d+):`)

func c15Ctx() *plush.Context {
	ctx := plush.NewContext()
	ctx.Set("fail", func() (string, error) { return "", errors.New("helper failed") })
	ctx.Set("xs", []int{1, 2})
	ctx.Set("tt", newT("t"))
	ctx.Set("ci", func(i int) int { return i })
	ctx.Set("two", func(a, b interface{}) interface{} { return a })
	ctx.Set("swallow", func(h plush.HelperContext) string {
		h.Block() // whatever goes wrong in the block stays there
		return ""
	})
	ctx.Set("cap", func(h plush.HelperContext) (template.HTML, error) {
		s, err := h.Block()
		return template.HTML(s), err
	})
	ctx.Set("partialFeeder", func(n string) (string, error) {
		if n == "ok" {
			return "p1\n<%= 1 %>\np3\n", nil
		}
		// partials that fail on a line of their own: the caller reports the line of its partial tag
		switch n {
		case "fails-on-line-3":
			return "p1\np2\n<%= nope %>\n", nil
		case "fails-in-a-helper-block-on-line-4":
			return "p1\n<%= cap() { %>\nb\n<%= nope %>\n<% } %>\n", nil
		case "fails-in-a-function-on-line-2":
			return "<% let pf = fn() {\n return nope\n} %>\n\n<%= pf() %>", nil
		}
		return "", fmt.Errorf("no partial %q", n)
	})
	return ctx
}

func shiftLines(msg string, k int) string {
	return reLine.ReplaceAllStringFunc(msg, func(m string) string {
		n, _ := strconv.Atoi(reLine.FindStringSubmatch(m)[1])
		return fmt.Sprintf("line %d:", n+k)
	})
}

// c15SelfInclusion: a template that includes itself (through the cache both levels run one
// parsed program) fails in the inner run, inside a helper block: the outer run reports the
// line of its own partial tag.
func c15SelfInclusion(b *core.B) {
	const self = "a\nb\n<%= cap() { %>\n<%= if (d == 0) { %><%= nope %><% } %>\n<% } %>\nx\n<%= if (d > 0) { %><%= partial(\"self\", {d: d - 1}) %><% } %>\n"
	for _, cache := range []bool{false, true} {
		for k := 0; k < 3; k++ {
			text := strings.Repeat("t\n", k) + self
			if !b.Begin(fmt.Sprintf("self-including template, cache=%v, shift %d", cache, k)) {
				continue
			}
			b.NonTrivialStr("self-inclusion", fmt.Sprint(cache, k))
			b.Count("self-including-template")
			var res R
			func() {
				plush.CacheEnabled = cache
				defer func() { plush.CacheEnabled = false }()
				ctx := c15Ctx()
				ctx.Set("d", 1)
				ctx.Set("partialFeeder", func(string) (string, error) { return text, nil })
				res = render(b, text, ctx)
			}()
			if res.Pan != nil {
				continue
			}
			want := fmt.Sprintf("line %d:", 7+k)
			if res.Err == nil || !strings.HasPrefix(res.Err.Error(), want) {
				b.Violate(fmt.Sprintf("wrong-line|self-including-template|cache=%v", cache), fmt.Sprintf("the partial tag is on line %d; got %v", 7+k, res.Err))
			}
		}
	}
}

// c15StoredBlockInPartial: a block stored by the including template and replayed inside a
// partial fails there: for the including template that is a failure inside the partial, at
// the line of the partial() call - not at the line where the block was written down.
func c15StoredBlockInPartial(b *core.B) {
	parts := map[string]string{
		"direct":  "<%= contentOf(\"x\") %>",
		"inblock": "p\n<%= cap() { %>\n<%= contentOf(\"x\") %><% } %>",
		"deeper":  "q\n<%= partial(\"direct\") %>",
	}
	for _, cache := range []bool{false, true} {
		for _, pn := range []string{"direct", "inblock", "deeper"} {
			for k := 0; k < 3; k++ {
				text := strings.Repeat("t\n", k) + "<% contentFor(\"x\") { %>\n\n<%= nope %>\n<% } %>\n\n" + strings.Repeat("u\n", k) + "<%= partial(\"" + pn + "\") %>\n"
				if !b.Begin(fmt.Sprintf("stored block replayed in partial %s, cache=%v, shift %d", pn, cache, k)) {
					continue
				}
				b.NonTrivialStr("stored-block-in-partial", fmt.Sprint(cache, pn, k))
				b.Count("stored-block-replayed-inside-a-partial")
				var res R
				func() {
					plush.CacheEnabled = cache
					defer func() { plush.CacheEnabled = false }()
					ctx := c15Ctx()
					ctx.Set("partialFeeder", func(n string) (string, error) { return parts[n], nil })
					res = render(b, text, ctx)
				}()
				if res.Pan != nil {
					continue
				}
				line := 6 + 2*k
				want := fmt.Sprintf("line %d:", line)
				if res.Err == nil || !strings.HasPrefix(res.Err.Error(), want) {
					b.Violate(fmt.Sprintf("wrong-line|stored-block-replayed-inside-a-partial|cache=%v", cache), fmt.Sprintf("the partial tag is on line %d; got %v", line, res.Err))
				}
			}
		}
	}
}

// c15FunctionFromElsewhere: a template function defined by one template and called in
// another (a partial, or a later render with the same context) fails in its body: for the
// template that is being executed the failing statement is the tag that holds the call - the
// lines of the function's body count in the text that defined it, not in this one.
func c15FunctionFromElsewhere(b *core.B) {
	for _, cache := range []bool{false, true} {
		for k := 0; k < 3; k++ {
			if !b.Begin(fmt.Sprintf("function defined elsewhere, cache=%v, shift %d", cache, k)) {
				continue
			}
			b.NonTrivialStr("function-from-elsewhere", fmt.Sprint(cache, k))
			b.Count("function-defined-in-another-template")
			def := strings.Repeat("t\n", k) + "<% let f = fn() { %>\nx\n<%= nope %>\n<% } %>\n"
			if k == 2 {
				// the failing statement sits in the block of a helper in the function's body
				def = strings.Repeat("t\n", k) + "<% let f = fn() { %>\nx\n<%= cap() { %><%= nope %><% } %>\n<% } %>\n"
			}
			main := def + "<%= partial(\"p\") %>\n"
			var r1, r2 R
			func() {
				plush.CacheEnabled = cache
				defer func() { plush.CacheEnabled = false }()
				ctx := c15Ctx()
				ctx.Set("partialFeeder", func(n string) (string, error) { return "p1\n<%= f() %>", nil })
				r1 = render(b, main, ctx)
				// the function outlives the render that defined it
				ctx2 := c15Ctx()
				if r := render(b, def, ctx2); r.Err == nil {
					r2 = render(b, "<%= f() %>", ctx2)
				}
			}()
			if r1.Pan != nil || r2.Pan != nil {
				continue
			}
			want := fmt.Sprintf("line %d: could not call partial function: line 2:", 5+k)
			if r1.Err == nil || !strings.HasPrefix(r1.Err.Error(), want) {
				b.Violate(fmt.Sprintf("wrong-line|function-defined-in-another-template|cache=%v", cache), fmt.Sprintf("want %q..., got %v", want, r1.Err))
			}
			if r2.Err == nil || !strings.HasPrefix(r2.Err.Error(), "line 1:") {
				b.Violate(fmt.Sprintf("wrong-line|function-defined-by-an-earlier-render|cache=%v", cache), fmt.Sprintf("a one-line template; got %v", r2.Err))
			}
		}
	}
}

func c15Run(b *core.B) {
	if b.Batch == 0 {
		c15SelfInclusion(b)
		c15FunctionFromElsewhere(b)
		c15StoredBlockInPartial(b)
	}
	r := b.Rng(1)
	n := 12000
	if b.Tier == core.Thorough {
		n = 2000000
	}
	var idx int64
	one := func(f c15Fault, ci int, prefix, suffix string) {
		c := c15Containers[ci]
		if strings.Contains(f.tag, "okfn") {
			prefix = "<% let okfn = fn() {\n  let inner = 1\n  return inner\n} %>\n" + prefix
		}
		before := prefix + c.pre
		tmpl := before + f.tag + c.post + suffix
		if !b.Begin(tmpl) {
			return
		}
		wantLine := 1 + strings.Count(before, "\n")
		res := render(b, tmpl, c15Ctx())
		b.Count("fault:" + f.name)
		b.Count("container:" + c.name)
		if res.Pan != nil {
			return
		}
		if res.Err == nil {
			// the fault did not fire (e.g. tolerated): nothing to judge
			b.Count("no-error")
			return
		}
		b.NonTrivialStr(tmpl)
		msg := res.Err.Error()
		cls := f.name + "|" + c.name
		m := reLine.FindStringSubmatchIndex(msg)
		if m == nil || m[0] != 0 {
			b.Violate("no-line-prefix|"+f.name, fmt.Sprintf("error does not start with 'line N:': %q (expected line %d)", msg, wantLine))
		} else if got, _ := strconv.Atoi(msg[m[2]:m[3]]); got != wantLine {
			b.Violate("wrong-line|"+cls, fmt.Sprintf("failing tag begins on line %d, error says line %d: %q", wantLine, got, msg))
		}
		// metamorphic shift
		for _, k := range []int{1, 2, 7, 100} {
			for _, unit := range []string{"\n", "x\n"} {
				shifted := strings.Repeat(unit, k) + tmpl
				r2 := renderQuiet(shifted, c15Ctx())
				if r2.Pan != nil {
					b.ViolateIn(r2.Pan.Sig(), shifted, r2.Pan.Value)
					continue
				}
				want := shiftLines(msg, k)
				got := "<nil>"
				if r2.Err != nil {
					got = r2.Err.Error()
				}
				if got != want {
					b.ViolateIn("shift-not-exact|"+f.name, shifted, fmt.Sprintf("k=%d unit=%q\nunshifted error: %q\n want shifted: %q\n  got shifted: %q", k, unit, msg, want, got))
					return
				}
			}
		}
	}
	// every fault in every container, no prefix and one of each prefix line
	for fi := range c15Faults {
		for ci := range c15Containers {
			f := c15Faults[fi]
			if f.syntax && c15Containers[ci].runtimeOnly {
				continue
			}
			idx++
			if b.Mine(idx) {
				one(f, ci, "", "")
			}
			for _, p := range c15Benign {
				idx++
				if b.Mine(idx) {
					one(f, ci, p, "tail\n")
				}
			}
		}
	}
	// random prefixes / suffixes
	for i := 0; i < n/b.NBatches; i++ {
		f := c15Faults[r.Intn(len(c15Faults))]
		ci := r.Intn(len(c15Containers))
		if f.syntax && c15Containers[ci].runtimeOnly {
			continue
		}
		var pre, suf strings.Builder
		for j := r.Range(0, 6); j > 0; j-- {
			pre.WriteString(c15Benign[r.Intn(len(c15Benign))])
		}
		for j := r.Range(0, 3); j > 0; j-- {
			suf.WriteString(c15Benign[r.Intn(len(c15Benign))])
		}
		one(f, ci, pre.String(), suf.String())
	}
}

func init() {
	core.Register(&core.Prop{
		ID:      "C15",
		Level:   "exploration",
		Rule:    fmt.Sprintf("templates = prefix lines + one failing single-line tag + suffix lines; %d fault kinds (12 runtime: unknown identifier, failing helper, type error, index out of range, division by zero, missing member, ...; 15 syntax: unclosed paren, no prefix function, bad let/if/for, missing ':', illegal character, break outside loop, over-long integer, malformed float, ...) x %d containers (top level, inside if/else/for/fn/helper/contentFor bodies spanning lines, and after an executed block/loop/helper block/function call/partial) x prefix lines drawn from %d kinds (text, CRLF, single- and multi-line tags, strings and back-quoted strings with newlines, multi-line comments, # comments, multi-line blocks); every (fault, container, prefix kind) enumerated, longer prefixes random. Oracle 1: the error starts with 'line N:' for the generator-counted N. Oracle 2 (metamorphic): for k in {1,2,7,100} and units LF / 'x'+LF, rendering unit*k + T gives the same error with every line-start 'line M:' increased by k. Non-trivial = a template that produced an error.", len(c15Faults), len(c15Containers), len(c15Benign)),
		Assume:  []string{"the failing tag is written on one line (abstention: failing statements inside multi-line tags)", "nested 'line M:' of a partial's own text is not at a line start and must stay unchanged under shifting"},
		Batches: batchesQT(8, 32),
		Run:     c15Run,
	})
}
