package props

import (
	"fmt"
	"html/template"
	"strings"

	"github.com/gobuffalo/plush/v5"

	"verifharness/internal/core"
)

// C07 — if / else-if / else renders the first truthy branch; truthiness is uniform.

// c07Truth is the property's table for the kind pool.
func c07Truth(kind string) bool {
	switch kind {
	case "nil", "bool_f", "str_empty", "html_empty", "nilp", "ptime_nil", "stringer_nilptr", "pathable_nilptr":
		return false
	}
	// named_string holds "ns": truthy like everything else
	return true
}

var c07Forms = []struct {
	name, tmpl string
	// how the output maps to a truth value
	t, f string
}{
	{"if", "<%= if (V) { %>T<% } else { %>F<% } %>", "T", "F"},
	{"else-if", "<%= if (false) { %>X<% } else if (V) { %>T<% } else { %>F<% } %>", "T", "F"},
	{"if-silent-return", "<%= if (V) { return \"T\" } else { return \"F\" } %>", "T", "F"},
	{"not", "<%= !V %>", "false", "true"},
	{"not-not", "<%= !!V %>", "true", "false"},
	{"and-true", "<%= V && true %>", "true", "false"},
	{"or-false", "<%= V || false %>", "true", "false"},
	{"true-and", "<%= true && V %>", "true", "false"},
	{"false-or", "<%= false || V %>", "true", "false"},
	{"if-not", "<%= if (!V) { %>F<% } else { %>T<% } %>", "T", "F"},
	{"if-and", "<%= if (V && V) { %>T<% } else { %>F<% } %>", "T", "F"},
	{"if-in-for", "<%= for (i) in [1] { %><%= if (V) { %>T<% } else { %>F<% } %><% } %>", "T", "F"},
	{"if-in-fn", "<% let f = fn(x) { if (x) { return \"T\" } return \"F\" } %><%= f(V) %>", "T", "F"},
}

// c07Hold reaches values through typed struct fields.
type c07Hold struct {
	NilSlice   []string
	NilMap     map[string]int
	NilPtr     *T
	NilFn      func()
	NilIface   interface{}
	EmptyStr   string
	ZeroInt    int
	EmptySlice []int
	HTMLEmpty  template.HTML
	Str        string
	Inner      *c07Hold
}

var c07HoldTruth = map[string]bool{"NilSlice": true, "NilMap": true, "NilPtr": false, "NilFn": true, "NilIface": false, "EmptyStr": false, "ZeroInt": true, "EmptySlice": true, "HTMLEmpty": false, "Str": true}

type c07Env struct{ trace []string }

func c07Ctx(env *c07Env) *plush.Context {
	ctx := kindCtx()
	ctx.Set("nilvar", nil)
	km := map[string]interface{}{}
	var kl []interface{}
	for _, k := range Kinds {
		km[k.Name] = k.Make()
		kl = append(kl, k.Make())
	}
	ctx.Set("km", km)
	ctx.Set("kl", kl)
	ctx.Set("hold", c07Hold{Str: "s", EmptySlice: []int{}, Inner: &c07Hold{Str: "s", EmptySlice: []int{}}})
	ctx.Set("phold", &c07Hold{Str: "s", EmptySlice: []int{}})
	ctx.Set("val", func(id string, v interface{}) interface{} {
		env.trace = append(env.trace, id)
		return v
	})
	ctx.Set("cap", func(h plush.HelperContext) (template.HTML, error) {
		s, err := h.Block()
		return template.HTML(s), err
	})
	return ctx
}

var c07Truthy = []string{"true", "1", "0", `"x"`, "v_ints_empty", "v_msi", "v_float0", "v_fn_nil", "0.0"}
var c07Falsy = []string{"false", "nil", `""`, "v_nilp", "v_html_empty"}

func c07Run(b *core.B) {
	var idx int64
	mine := func() bool { idx++; return b.Mine(idx) }

	// (1) exhaustive matrix kind x form
	type kv struct {
		expr  string
		truth bool
	}
	vals := []kv{{"nope_unknown", false}, {"nilvar", false},
		// a path that starts at a name nobody set is as unknown as the name, however long it is
		{"nope_unknown.Owner", false}, {"nope_unknown.Owner.Admin", false}, {"nope_unknown.A.B.C.D", false}, {"nilvar.Owner.Admin", false},
		// values written down in the template itself: what is true of 0 in a variable is true of the literal
		{"0", true}, {"0.0", true}, {"1", true}, {`""`, false}, {`"a"`, true}, {"``", false}, {"true", true}, {"false", false}, {"nil", false}, {"(0)", true}, {"(false)", false}}
	for i, k := range Kinds {
		vals = append(vals, kv{"v_" + k.Name, c07Truth(k.Name)})
		// the same value reached as a map element and as a slice element
		vals = append(vals, kv{fmt.Sprintf("km[\"%s\"]", k.Name), c07Truth(k.Name)})
		vals = append(vals, kv{fmt.Sprintf("kl[%d]", i), c07Truth(k.Name)})
	}
	// ... and through struct fields (value, pointer, nested pointer)
	for f, truth := range c07HoldTruth {
		vals = append(vals, kv{"hold." + f, truth}, kv{"phold." + f, truth}, kv{"hold.Inner." + f, truth})
	}
	for _, v := range vals {
		for _, f := range c07Forms {
			if !mine() {
				continue
			}
			if f.name == "if-in-fn" && (strings.HasPrefix(v.expr, "nope_unknown.") || strings.HasPrefix(v.expr, "nilvar.") || v.expr == "v_nil" || v.expr == "nilvar" || v.expr == "nope_unknown" || v.expr == "nil") {
				continue
			}
			if strings.Contains(v.expr, "[") && strings.Contains(f.tmpl, "V && V") {
				// keep the matrix small: the doubled form only for plain variables
				// as a call argument an unset / nil-valued name is an unknown
				// identifier error, which the property does not tolerate there
				continue
			}
			tmpl := strings.Replace(f.tmpl, "V", v.expr, -1)
			if !b.Begin(tmpl) {
				continue
			}
			res := render(b, tmpl, c07Ctx(&c07Env{}))
			b.Count("form:" + f.name)
			b.NonTrivialDistinct()
			if res.Pan != nil {
				continue
			}
			want := f.f
			if v.truth {
				want = f.t
			}
			if res.Err != nil {
				b.Violate("truth-test-rejected|"+f.name+"|"+core.ErrClass(res.Err), fmt.Sprintf("%s must be %v in every context; got error %v", v.expr, v.truth, res.Err))
			} else if res.Out != want {
				b.Violate("truthiness|"+f.name+"|"+v.expr, fmt.Sprintf("%s is %v per the table; form %s rendered %q (want %q)", v.expr, v.truth, f.name, res.Out, want))
			}
		}
	}

	// (1b) chains that go on after their else block: rejected, or the else block ends them -
	// never a later branch in place of the else block, and no later condition evaluated
	for _, tc := range []struct{ t, okOut string }{
		{`<%= if (false) { %>A<% } else { %>B<% } else if (val("c2", true)) { %>C<% } %>`, "B"},
		{`<%= if (false) { %>A<% } else { %>B<% } else { %>C<% } %>`, "B"},
		{`<%= if (val("c1", false)) { %>A<% } else if (val("c2", false)) { %>X<% } else { %>B<% } else if (val("c3", true)) { %>C<% } else { %>D<% } %>`, "B"},
		{`<%= if (true) { %>A<% } else { %>B<% } else if (val("c2", true)) { %>C<% } %>`, "A"},
	} {
		if !mine() || !b.Begin(tc.t) {
			continue
		}
		env := &c07Env{}
		res := render(b, tc.t, c07Ctx(env))
		b.Count("chain-continued-after-else")
		b.NonTrivialStr(tc.t)
		if res.Pan != nil || res.Err != nil {
			continue // rejected: fine
		}
		late := false
		for _, id := range env.trace {
			if id == "c3" || id == "c2" && !strings.Contains(tc.t, `"c1"`) {
				late = true
			}
		}
		if res.Out != tc.okOut || late {
			b.Violate("branch-after-else-taken", fmt.Sprintf("accepted and rendered %q (conditions evaluated: %v); the else block ends the chain: want %q or a syntax error", res.Out, env.trace, tc.okOut))
		}
	}

	// (2) chains
	r := b.Rng(3)
	reps := 10
	if b.Tier == core.Thorough {
		reps = 1500
	}
	wrappers := []struct {
		name, pre, post string
		times           int
		multiOnly       bool
	}{
		{"top", "", "", 1, false},
		{"in-for", "<%= for (i) in [1, 2] { %>[", "]<% } %>", 2, true},
		{"in-fn", "<% let f = fn() { %>", "<% } %><%= f() %>", 1, true},
		{"in-helper-block", "<%= cap() { %>(", ")<% } %>", 1, true},
		{"in-if", "<%= if (true) { %>{", "}<% } %>", 1, true},
		{"in-else", "<%= if (false) { %>NO<% } else { %>{", "}<% } %>", 1, true},
		{"in-for-in-if", "<%= if (true) { %><%= for (i) in [1] { %>[", "]<% } %><% } %>", 1, true},
	}
	for rep := 0; rep < reps; rep++ {
		for n := 1; n <= 5; n++ {
			for withElse := 0; withElse < 2; withElse++ {
				for mask := 0; mask < 1<<n; mask++ {
					for wi, w := range wrappers {
						for layout := 0; layout < 2; layout++ {
							if layout == 1 && w.multiOnly {
								continue
							}
							if !mine() {
								continue
							}
							// build the chain; in the multi-tag layout a branch block may print
							// nothing (empty, or only a silent statement): the chain still ends there
							var sb strings.Builder
							blockText := make([]string, n)
							blockOut := make([]string, n)
							for i := 0; i < n; i++ {
								blockText[i] = fmt.Sprintf("B%d", i+1)
								blockOut[i] = blockText[i]
								if layout == 0 && r.Chance(1, 4) {
									blockText[i] = pick(r, []string{"", "<% let z9 = 1 %>", "<%# nothing %>"})
									blockOut[i] = ""
								}
							}
							conds := make([]string, n)
							recorded := make([]bool, n)
							first := -1
							for i := 0; i < n; i++ {
								truth := mask>>i&1 == 1
								var x string
								if truth {
									x = pick(r, c07Truthy)
								} else {
									x = pick(r, c07Falsy)
								}
								conds[i] = fmt.Sprintf("val(\"c%d\", %s)", i+1, x)
								recorded[i] = true
								if !truth && r.Chance(1, 5) {
									// a bare unknown identifier is falsy and must not end the chain
									conds[i] = pick(r, []string{"unknownIdent", "unknownIdent.Field", "nilvar"})
									recorded[i] = false
								}
								if truth && first < 0 {
									first = i
								}
							}
							for i := 0; i < n; i++ {
								kw := "if"
								if i > 0 {
									kw = "} else if"
								}
								if layout == 0 {
									if i == 0 {
										fmt.Fprintf(&sb, "<%%= if (%s) { %%>%s", conds[i], blockText[i])
									} else {
										fmt.Fprintf(&sb, "<%% %s (%s) { %%>%s", kw, conds[i], blockText[i])
									}
								} else {
									if i == 0 {
										fmt.Fprintf(&sb, "<%%= if (%s) { return \"B%d\" ", conds[i], i+1)
									} else {
										fmt.Fprintf(&sb, "%s (%s) { return \"B%d\" ", kw, conds[i], i+1)
									}
								}
							}
							if withElse == 1 {
								if layout == 0 {
									sb.WriteString("<% } else { %>E")
								} else {
									sb.WriteString("} else { return \"E\" ")
								}
							}
							if layout == 0 {
								sb.WriteString("<% } %>")
							} else {
								sb.WriteString("} %>")
							}
							tmpl := w.pre + sb.String() + w.post
							if !b.Begin(tmpl) {
								continue
							}
							env := &c07Env{}
							res := render(b, tmpl, c07Ctx(env))
							b.Count("chain:" + w.name)
							b.NonTrivialStr(tmpl)
							if res.Pan != nil {
								continue
							}
							marker := ""
							ntrace := n
							if first >= 0 {
								marker = fmt.Sprintf("B%d", first+1)
								if layout == 0 {
									marker = blockOut[first]
								}
								ntrace = first + 1
							} else if withElse == 1 {
								marker = "E"
							}
							// expected output: strip the wrapper's tags
							one := marker
							switch wi {
							case 1:
								one = "[" + marker + "]"
							case 3:
								one = "(" + marker + ")"
							case 4, 5:
								one = "{" + marker + "}"
							case 6:
								one = "[" + marker + "]"
							}
							want := strings.Repeat(one, w.times)
							wantTrace := []string{}
							for t := 0; t < w.times; t++ {
								for i := 0; i < ntrace; i++ {
									if recorded[i] {
										wantTrace = append(wantTrace, fmt.Sprintf("c%d", i+1))
									}
								}
							}
							cls := fmt.Sprintf("%s|n=%d", w.name, n)
							if res.Err != nil {
								b.Violate("chain-rejected|"+cls+"|"+core.ErrClass(res.Err), fmt.Sprintf("want %q, got error %v", want, res.Err))
							} else if res.Out != want {
								b.Violate("wrong-branch|"+cls, fmt.Sprintf("truth assignment %0*b (c1 is the lowest bit): want %q, got %q", n, mask, want, res.Out))
							} else if strings.Join(env.trace, ",") != strings.Join(wantTrace, ",") {
								b.Violate("conditions-evaluated|"+cls, fmt.Sprintf("want conditions %v evaluated, got %v", wantTrace, env.trace))
							}
						}
					}
				}
			}
		}
	}
}

func init() {
	core.Register(&core.Prop{
		ID:         "C07",
		Level:      "exploration",
		Rule:       fmt.Sprintf("(1) exhaustive matrix: %d value kinds + unknown identifier + nil variable x %d syntactic contexts (if, else-if, return-style if, !, !!, && true, || false, true &&, false ||, if !, if &&, inside for, inside a function) judged against the property's truth table; (2) chains of 1..5 branches with and without else, all 2^n truth assignments, conditions wrapped in a recording helper with values drawn from truthy and falsy kinds (not only bools), in 7 nesting contexts, multi-tag and single-tag layouts (x10 random value draws in quick, x1500 in thorough). Oracle: marker of the first truthy branch only, and exactly the conditions c1..cj evaluated. All cases non-trivial (matrix distinct by construction, chains by template hash).", len(Kinds), len(c07Forms)),
		Assume:     []string{"truth table taken from the property text: nil, false, \"\", empty HTML, nil pointers and unknown identifiers are falsy; everything else is truthy"},
		Batches:    batchesQT(8, 32),
		Run:        c07Run,
		Exhaustive: func(core.Tier) bool { return true },
	})
}
