package props

import (
	"fmt"
	"html/template"
	"strings"
	"time"

	"github.com/gobuffalo/plush/v5"

	"verifharness/internal/core"
)

// C17 — rendering through partial / layout / contentFor / block helpers equals
// rendering the same source inline in the equivalent scope (second route
// through the real engine).

type c17Data struct {
	iv int
	sv string
	tf string // a TIME_FORMAT of the data's own ("" = none): times in the body print in it
}

func (d c17Data) lit(extra string) string {
	if d.tf != "" {
		extra = fmt.Sprintf(", TIME_FORMAT: \"%s\"", d.tf) + extra
	}
	return fmt.Sprintf("{iv: %d, sv: \"%s\"%s}", d.iv, strings.Replace(d.sv, "\"", "\\\"", -1), extra)
}

func c17Base(env *progEnv, partials map[string]string, contentType string) *plush.Context {
	ctx := progCtx(env)
	ctx.Set("iv", 100) // outer values that data must shadow
	ctx.Set("sv", "outer")
	ctx.Set("when", time.Date(2021, 3, 4, 5, 6, 7, 0, time.UTC))
	ctx.Set("capWith", func(data map[string]interface{}, h plush.HelperContext) (template.HTML, error) {
		nc := h.New()
		for k, v := range data {
			nc.Set(k, v)
		}
		s, err := h.BlockWith(nc)
		return template.HTML(s), err
	})
	feeder := func(n string) (string, error) {
		if s, ok := partials[n]; ok {
			return s, nil
		}
		return "", fmt.Errorf("no partial %q", n)
	}
	// the feeder is registered as a plain func or as the named type the package
	// exports for it, depending on the partial texts (deterministic per case)
	sum := 0
	for _, t := range partials {
		sum += len(t)
	}
	if sum%2 == 1 {
		ctx.Set("partialFeeder", plush.PartialFeeder(feeder))
	} else {
		ctx.Set("partialFeeder", feeder)
	}
	if contentType != "" {
		ctx.Set("contentType", contentType)
	}
	return ctx
}

// inline renders body in base.New()+data: the second route.
func c17Inline(body string, d *c17Data, partials map[string]string, contentType string, sameScope bool) (R, []string) {
	env := &progEnv{}
	base := c17Base(env, partials, contentType)
	var ctx *plush.Context = base
	if !sameScope {
		ctx = base.New().(*plush.Context)
	}
	if d != nil {
		ctx.Set("iv", d.iv)
		ctx.Set("sv", d.sv)
		if d.tf != "" {
			ctx.Set("TIME_FORMAT", d.tf)
		}
	}
	r := renderQuiet(body, ctx)
	return r, env.trace
}

func needsJS(contentType, name string) bool {
	if !strings.Contains(contentType, "javascript") {
		return false
	}
	// the extension of a name is that of its last path element: "v1.2/part" has none
	base := name[strings.LastIndex(name, "/")+1:]
	i := strings.LastIndex(base, ".")
	ext := ""
	if i >= 0 {
		ext = base[i:]
	}
	return ext != ".js" && ext != ""
}

// c17Counter is a Stringer whose text changes when the template calls Inc.
type c17Counter struct{ n int }

func (c *c17Counter) String() string { return fmt.Sprint(c.n) }
func (c *c17Counter) Inc() string    { c.n++; return "" }

// c17Settled: a block's text is what its statements print one after the other, also
// when a later statement changes what an earlier one has printed.
func c17Settled(b *core.B) {
	bodies := []string{
		`<%= a %><% a[0] = "y" %><%= a %>`,
		`<%= cnt %><% cnt.Inc() %><%= cnt %>|<%= [cnt] %><% cnt.Inc() %><%= cnt %>`,
		`<%= when %>|<% let TIME_FORMAT = "2006" %><%= when %>`,
		`<%= m["k"] %><%= mm %><% mm["k"] = "new" %>|<%= mm["k"] %>`,
	}
	wraps := []struct{ name, pre, post string }{
		{"block-helper", `<%= capWith({q: 1}) { %>`, `<% } %>`},
		{"contentFor-contentOf", `<% contentFor("blk") { %>`, `<% } %><%= contentOf("blk") %>`},
		{"contentOf-default-block", `<%= contentOf("undefined") { %>`, `<% } %>`},
		{"if-block", `<%= if (true) { %>`, `<% } %>`},
		{"for-body", `<%= for (once) in [1] { %>`, `<% } %>`},
		{"function-body", `<% let fb = fn() { %>`, `<% } %><%= fb() %>`},
	}
	mk := func() *plush.Context {
		ctx := c17Base(&progEnv{}, map[string]string{}, "")
		ctx.Set("a", []interface{}{"x"})
		ctx.Set("cnt", &c17Counter{})
		ctx.Set("m", map[string]interface{}{"k": "v"})
		ctx.Set("mm", map[string]interface{}{"k": "old"})
		return ctx
	}
	for _, body := range bodies {
		inline := renderQuiet(body, mk())
		if !inline.OK() {
			continue
		}
		for _, w := range wraps {
			t := w.pre + body + w.post
			if !b.Begin("settled: " + t) {
				continue
			}
			b.NonTrivialStr(t)
			b.Count("composition:values-changed-between-two-outputs")
			res := render(b, t, mk())
			if res.Pan != nil {
				continue
			}
			if res.Err != nil || res.Out != inline.Out {
				b.Violate("differs-from-inline|"+w.name+"|value-changed-after-it-was-printed", fmt.Sprintf("inline: %q\ncomposed: %s", inline.Out, res))
			}
		}
	}
}

// c17Repeated: a composition used twice gives twice what the inlined text gives: the second use
// starts where the first one started - same data map, same stored block, nothing left behind.
func c17Repeated(b *core.B) {
	partials := map[string]string{
		"row":   "r(<%= n %>)",
		"frame": "[<%= yield %>]",
		"sets":  "<% let seen = \"again\" %>s",
		"shows": "<%= if (seen) { %><%= seen %><% } else { %>fresh<% } %>",
	}
	for _, c := range []struct{ t, want string }{
		// one data map that names a layout, used for two partial calls and in a loop
		{`<% let opts = {layout: "frame", n: 1} %><%= partial("row", opts) %>|<%= partial("row", opts) %>|<%= opts["layout"] %>`, "[r(1)]|[r(1)]|frame"},
		{`<% let opts = {layout: "frame", n: 2} %><%= for (i) in [1, 2, 3] { %><%= partial("row", opts) %><% } %>|<%= len(opts) %>`, "[r(2)][r(2)][r(2)]|2"},
		{`<%= partial("row", gomap) %><%= partial("row", gomap) %>|<%= len(gomap) %>`, "[r(7)][r(7)]|2"},
		// a stored block that sets a name, replayed without data twice, and what the page sees afterwards
		{`<% let k = 0 %><% contentFor("cnt") { %><% let k = k + 1 %><%= k %>.<% } %><%= contentOf("cnt") %><%= contentOf("cnt") %>|<%= k %>`, "1.1.|0"},
		{`<% let where = "page" %><% contentFor("w") { %><% let where = "side" %><%= where %><% } %><%= contentOf("w") %>|<%= where %>|<%= contentOf("w", {}) %>|<%= where %>`, "side|page|side|page"},
		{`<%= contentOf("none") { %><% let dflt = "d" %><%= dflt %><% } %>|<%= if (dflt) { %>leaked<% } else { %>clean<% } %>`, "d|clean"},
		{`<%= partial("sets") %><%= partial("shows") %>|<%= partial("sets", {}) %><%= partial("shows", {}) %>`, "sfresh|sfresh"},
	} {
		if !b.Begin("repeated: " + c.t) {
			continue
		}
		b.NonTrivialStr(c.t)
		b.Count("composition:used-twice")
		ctx := c17Base(&progEnv{}, partials, "")
		ctx.Set("gomap", map[string]interface{}{"layout": "frame", "n": 7})
		res := render(b, c.t, ctx)
		if res.Pan != nil {
			continue
		}
		if res.Err != nil || res.Out != c.want {
			b.Violate("differs-from-inline|composition-used-twice", fmt.Sprintf("want %q, got %s", c.want, res))
		}
	}
}

func c17Run(b *core.B) {
	if b.Batch == 0 {
		c17Settled(b)
		c17Repeated(b)
	}
	r := b.Rng(1)
	n := 40000
	if b.Tier == core.Thorough {
		n = 3000000
	}
	for i := 0; i < n/b.NBatches; i++ {
		prog := genProgram(r, 2, func(g *pGen) {
			g.noFail = true
			g.noAssign = true
			g.noReturn = true
			g.ints = append(g.ints, "iv")
			g.strs = append(g.strs, "sv")
			g.hashBias = true
		})
		// no mutation of shared data: drop assignment statements
		body := ""
		{
			var units []pUnit
			for _, u := range prog.units {
				if u.toks != nil && len(u.toks) > 1 && (u.toks[1] == "=" || (len(u.toks) > 4 && u.toks[0] == "nums")) {
					continue
				}
				units = append(units, u)
			}
			prog.units = units
			body = prog.canonical()
		}
		partials := map[string]string{}
		// nested partial inside the body (depth <= 3 through repeated generation)
		if r.Chance(1, 3) {
			sub := genProgram(r, 1, func(g *pGen) {
				g.noFail = true
				g.noAssign = true
				g.noReturn = true
				g.ints = append(g.ints, "iv")
				g.hashBias = true
			})
			partials["sub.html"] = sub.canonical()
			body += "<%= partial(\"sub.html\", {iv: 7}) %>"
			if r.Chance(1, 2) {
				partials["subsub"] = "SS<%= iv %>"
				partials["sub.html"] += "<%= partial(\"subsub\", {iv: 8}) %>"
			}
		}
		d := c17Data{iv: r.Intn(50), sv: pick(r, []string{"x", "y<z", "q\"uote", ""})}
		if r.Chance(1, 3) {
			// a time in the body, and in half of these cases a time format that comes with the data
			body += "<%= when %>"
			if r.Bool() {
				d.tf = pick(r, []string{"2006", "Jan 2", "15h04"})
			}
		}
		ct := pick(r, []string{"", "", "text/html", "application/javascript"})
		pre, post := pick(r, []string{"", "pre ", "<p>"}), pick(r, []string{"", " post", "</p>\n"})
		kind := r.Intn(14)
		secondRender := ""
		var tmpl, want, kindName string
		var wantTrace []string
		wantErr := false
		okInline := true
		inl := func(dd *c17Data, same bool) string {
			rr, tr := c17Inline(body, dd, partials, ct, same)
			if !rr.OK() {
				okInline = false
				if rr.Err != nil {
					b.Count("inline-error:" + core.ErrClass(rr.Err))

				}
			}
			wantTrace = append(wantTrace, tr...)
			return rr.Out
		}
		switch kind {
		case 0, 1: // partial, names with different extensions
			name := pick(r, []string{"part", "part.html", "part.js", "dir/part.plush.html", "v1.2/part", "./part", "../shared/part", "admin.v2/part.js", "admin.v2/part.html"})
			kindName = "partial"
			partials[name] = body
			tmpl = pre + "<%= partial(\"" + name + "\", " + d.lit("") + ") %>" + post
			frag := inl(&d, false)
			if needsJS(ct, name) {
				frag = template.JSEscapeString(frag)
				kindName = "partial-js-escaped"
			}
			want = pre + frag + post
		case 2: // partial with layout
			name := pick(r, []string{"part", "part.html", "part.js", "v1.2/part"})
			lay := pick(r, []string{"lay", "lay.html", "lay.js", "./lay"})
			kindName = "partial-with-layout"
			partials[name] = body
			partials[lay] = "L[<%= yield %>|<%= ci %>|<%= sv %>]"
			tmpl = pre + "<%= partial(\"" + name + "\", " + d.lit(", layout: \""+lay+"\"") + ") %>" + post
			frag := inl(&d, false)
			if needsJS(ct, name) {
				frag = template.JSEscapeString(frag)
			}
			whole := "L[" + frag + "|3|" + template.HTMLEscapeString(d.sv) + "]"
			if needsJS(ct, lay) {
				whole = template.JSEscapeString(whole)
			}
			want = pre + whole + post
		case 3: // layout whose text itself calls a partial (nested composition)
			kindName = "partial-with-nested-layout"
			partials["part"] = body
			partials["lay"] = "L1[<%= partial(\"head\") %><%= yield %>]"
			partials["head"] = "H<%= ci %>;"
			tmpl = pre + "<%= partial(\"part\", " + d.lit(", layout: \"lay\"") + ") %>" + post
			want = pre + "L1[H3;" + inl(&d, false) + "]" + post
		case 4, 5: // contentFor + k contentOf
			kindName = "contentFor-contentOf"
			k := r.Range(0, 3)
			tmpl = pre + "<% contentFor(\"blk\") { %>" + body + "<% } %>" + "mid"
			want = pre + "mid"
			for j := 0; j < k; j++ {
				dj := c17Data{iv: d.iv + j, sv: d.sv, tf: d.tf}
				if r.Chance(1, 4) {
					tmpl += "<%= contentOf(\"blk\") %>"
					want += inl(nil, false)
				} else {
					tmpl += "<%= contentOf(\"blk\", " + dj.lit("") + ") %>"
					want += inl(&dj, false)
				}
				tmpl += ";"
				want += ";"
			}
			tmpl += post
			want += post
			if k == 0 {
				kindName = "contentFor-unused"
			}
		case 6: // contentOf of an undefined name
			if r.Bool() {
				kindName = "contentOf-default-block"
				tmpl = pre + "<%= contentOf(\"undefined\", " + d.lit("") + ") { %>" + body + "<% } %>" + post
				want = pre + inl(&d, false) + post
			} else {
				kindName = "contentOf-undefined"
				tmpl = pre + "<%= contentOf(\"undefined\", " + d.lit("") + ") %>" + post
				wantErr = true
			}
		case 9: // contentFor declared at top level, replayed inside a for body that goes on using its loop variable
			kindName = "contentOf-inside-for"
			tmpl = pre + "<% contentFor(\"blk\") { %>" + body + "<% } %><%= for (lv) in [\"e1\", \"e2\"] { %>[<%= contentOf(\"blk\", " + d.lit("") + ") %>|<%= lv %>]<% } %>" + post
			one := inl(&d, false)
			two := inl(&d, false)
			want = pre + "[" + one + "|e1][" + two + "|e2]" + post
		case 10: // contentFor declared at top level, replayed inside a function body
			kindName = "contentOf-inside-fn"
			tmpl = pre + "<% contentFor(\"blk\") { %>" + body + "<% } %><% let show = fn(pv) { %>(<%= contentOf(\"blk\", " + d.lit("") + ") %>|<%= pv %>)<% } %><%= show(\"p1\") %>" + post
			want = pre + "(" + inl(&d, false) + "|p1)" + post
		case 11: // the same data map passed to a partial twice; the partial rebinds one of its keys
			kindName = "partial-twice-same-data-map"
			partials["rebind"] = "<% let iv = iv + 1 %>" + body + "{<%= iv %>}"
			tmpl = pre + "<% let dm = " + d.lit("") + " %><%= partial(\"rebind\", dm) %>;<%= partial(\"rebind\", dm) %>;<%= dm[\"iv\"] %>" + post
			saveBody := body
			body = partials["rebind"]
			one := inl(&d, false)
			two := inl(&d, false)
			body = saveBody
			want = pre + one + ";" + two + ";" + fmt.Sprint(d.iv) + post
		case 12: // a block declared in a partial's body, replayed by its layout
			kindName = "contentFor-in-partial-contentOf-in-layout"
			partials["page"] = "<% contentFor(\"side\") { %>" + body + "<% } %>main"
			partials["lay"] = "L[<%= yield %>|<%= contentOf(\"side\") %>]"
			tmpl = pre + "<%= partial(\"page\", " + d.lit(", layout: \"lay\"") + ") %>" + post
			want = pre + "L[main|" + inl(&d, false) + "]" + post
		case 13: // a block declared by one render, replayed by a later render on the same context
			kindName = "contentFor-then-contentOf-in-a-second-render"
			tmpl = pre + "<% contentFor(\"later\") { %>" + body + "<% } %>first" + post
			secondRender = "second:<%= contentOf(\"later\", " + d.lit("") + ") %>"
			want = pre + "first" + post + "\x00second:" + inl(&d, false)
		case 7: // block helper: Block()
			kindName = "block-helper"
			tmpl = pre + "<%= cap() { %>" + body + "<% } %>" + post
			want = pre + "(" + inl(nil, true) + ")" + post
		default: // block helper: BlockWith(new context + data)
			kindName = "block-helper-with-context"
			tmpl = pre + "<%= capWith(" + d.lit("") + ") { %>" + body + "<% } %>" + post
			want = pre + inl(&d, false) + post
		}
		full := tmpl
		if len(partials) > 0 {
			full += "\n-- partials: " + fmt.Sprint(partials) + " contentType=" + ct
		}
		if !b.Begin(full) {
			continue
		}
		env := &progEnv{}
		ctxA := c17Base(env, partials, ct)
		res := render(b, tmpl, ctxA)
		if secondRender != "" && res.OK() {
			r2 := render(b, secondRender, ctxA)
			res.Out += "\x00" + r2.Out
			res.Err, res.Pan = r2.Err, r2.Pan
		}
		b.Count("composition:" + kindName)
		b.Count("contentType:" + ct)
		if res.Pan != nil {
			continue
		}
		if !okInline {
			// the body itself does not render inline: not a composition question
			b.Abstain()
			continue
		}
		b.NonTrivialStr(full)
		if wantErr {
			if res.Err == nil {
				b.Violate("undefined-content-accepted|"+kindName, fmt.Sprintf("contentOf of an undefined name without a default block must fail; got %q", res.Out))
			}
			continue
		}
		if res.Err != nil {
			b.Violate("composition-rejected|"+kindName+"|"+core.ErrClass(res.Err), fmt.Sprintf("inline rendering succeeds (%q); composed rendering failed: %v", want, res.Err))
			continue
		}
		if res.Out != want {
			b.Violate("differs-from-inline|"+kindName, fmt.Sprintf("inline: %q\ncomposed: %q", want, res.Out))
			continue
		}
		if strings.Join(env.trace, ",") != strings.Join(wantTrace, ",") {
			b.Violate("body-evaluation-count|"+kindName, fmt.Sprintf("side effects inline %v, composed %v (a body rendered zero times or twice)", wantTrace, env.trace))
		}
		if i < 2 {
			b.Sample(map[string]any{"template": tmpl, "partials": partials, "expected": want})
		}
	}
}

func init() {
	core.Register(&core.Prop{
		ID:      "C17",
		Level:   "exploration",
		Rule:    "bodies from the shared program generator (text, output tags over scope and data variables, loops, conditionals, functions, helper blocks, hash literals with recording side effects, nested partials to depth 3; no assignments) x data maps x compositions: partial (names with .js/.html/no extension), partial with layout, layout that itself calls a partial, contentFor followed by 0-3 contentOf with and without data, contentOf of an undefined name with/without default block, block helper running Block() and BlockWith(new context + data) x content type {unset, text/html, application/javascript}. Oracle (second route through the real engine): the fragment is plush.Render(body, scope.New()+data) computed separately, the expected whole is assembled by the harness (JS-escaped iff the content type contains 'javascript' and the extension is neither .js nor empty; layout text around it); outputs and the recorded side-effect traces (exactly-once) must be equal. Non-trivial = judged composition (distinct by hash).",
		Assume:  []string{"sees disagreement between two routes through the same engine, not a common error of both (absolute correctness is the business of C01/C02/C06-C09)", "bodies that do not render inline are not judged"},
		Batches: batchesQT(8, 32),
		Run:     c17Run,
	})
}
