package props

import (
	"context"
	"errors"
	"fmt"
	"html/template"
	"strings"
	"testing/iotest"

	"github.com/gobuffalo/plush/v5"

	"verifharness/internal/core"
)

// C05 — no silent failure. A failing helper (or an instrumented failing
// operation) is placed at every position of host programs; whenever it was
// actually invoked, Render must return ("", err) with errors.Is(err, sentinel).

const hole = "⟦F⟧"

type c05CodedError interface {
	error
	Code() int
}

// c05NotFound is an error type without state: its only value is its zero value.
type c05NotFound struct{}

func (c05NotFound) Error() string { return "not found" }

type c05Coded struct{ error }

func (c c05Coded) Code() int { return 7 }

// expression-level skeletons: the hole and the whole are expressions.
func c05ExprSkels() []struct{ name, s string } {
	out := []struct{ name, s string }{
		{"bare", hole},
		{"paren", "(" + hole + ")"},
		{"not", "!" + hole},
		{"array-elem", "[1, " + hole + "]"},
		{"array-first", "[" + hole + "]"},
		{"hash-value", "{a: 1, b: " + hole + "}"},
		{"index", "xs[" + hole + "]"},
		{"indexed-container", hole + "[0]"},
		{"go-helper-arg", "ident(" + hole + ")"},
		{"go-helper-arg2", "two(1, " + hole + ")"},
		{"userfn-arg", "uf(" + hole + ")"},
		{"userfn-arg2", "uf2(1, " + hole + ")"},
		{"variadic-arg", "vari(1, " + hole + ")"},
		{"variadic-first", "vari(" + hole + ", 2)"},
		{"and-evaluated", "true && " + hole},
		{"or-evaluated", "false || " + hole},
		{"and-left", hole + " && true"},
		{"or-left", hole + " || false"},
		{"and-shortcircuit", "false && " + hole},
		{"or-shortcircuit", "true || " + hole},
		{"method-arg", "tt.Add(1, " + hole + ")"},
	}
	for _, op := range []string{"+", "-", "*", "/", "<", "<=", ">", ">=", "==", "!=", "~="} {
		out = append(out, struct{ name, s string }{"op-left:" + op, hole + " " + op + " 1"})
		out = append(out, struct{ name, s string }{"op-right:" + op, "1 " + op + " " + hole})
	}
	return out
}

// statement-level skeletons: the hole is an expression, the whole is template text.
var c05StmtSkels = []struct{ name, s string }{
	{"out-tag", "<%= ⟦F⟧ %>"},
	{"silent-tag", "<% ⟦F⟧ %>"},
	{"let-rhs", "<% let q = ⟦F⟧ %>"},
	{"assign-rhs", "<% let q = 1 %><% q = ⟦F⟧ %>"},
	{"index-assign-rhs", "<% xs[0] = ⟦F⟧ %>"},
	{"index-assign-index", "<% xs[⟦F⟧] = 1 %>"},
	{"if-cond", "<%= if (⟦F⟧) { %>T<% } %>"},
	{"if-cond-silent", "<% if (⟦F⟧) { %>T<% } %>"},
	{"elseif-cond", "<%= if (false) { %>T<% } else if (⟦F⟧) { %>U<% } %>"},
	{"elseif-cond-2nd", "<%= if (false) { %>T<% } else if (false) { %>U<% } else if (⟦F⟧) { %>V<% } else { %>W<% } %>"},
	{"elseif-cond-untaken", "<%= if (true) { %>T<% } else if (⟦F⟧) { %>U<% } %>"},
	{"then-body", "<%= if (true) { %>a<%= ⟦F⟧ %>b<% } %>"},
	{"then-body-silent", "<%= if (true) { %>a<% ⟦F⟧ %>b<% } %>"},
	{"then-body-let", "<%= if (true) { %>a<% let q = ⟦F⟧ %>b<% } %>"},
	{"then-body-untaken", "<%= if (false) { %>a<%= ⟦F⟧ %>b<% } %>"},
	{"elseif-body", "<%= if (false) { %>T<% } else if (true) { %>a<%= ⟦F⟧ %>b<% } %>"},
	{"else-body", "<%= if (false) { %>T<% } else { %>a<%= ⟦F⟧ %>b<% } %>"},
	{"silent-if-body", "<% if (true) { %>a<%= ⟦F⟧ %>b<% } %>"},
	{"for-iterable", "<%= for (x) in ⟦F⟧ { %>x<% } %>"},
	{"for-iterable-wrapped", "<%= for (x) in [⟦F⟧] { %>x<% } %>"},
	{"for-body", "<%= for (x) in [1, 2] { %>a<%= ⟦F⟧ %>b<% } %>"},
	{"for-body-2nd-iteration", "<%= for (x) in [1, 2] { %>a<%= if (x == 2) { return ⟦F⟧ } %>b<% } %>"},
	{"for-body-silent", "<% for (x) in [1, 2] { %>a<% ⟦F⟧ %>b<% } %>"},
	{"for-body-map", "<%= for (k, v) in mp { %>a<%= ⟦F⟧ %>b<% } %>"},
	{"for-body-iterator", "<%= for (v) in range(1, 2) { %>a<%= ⟦F⟧ %>b<% } %>"},
	{"for-body-after-continue", "<%= for (x) in [1, 2] { if (x == 1) { continue } %>a<%= ⟦F⟧ %>b<% } %>"},
	{"for-body-return", "<%= for (x) in [1, 2] { return ⟦F⟧ } %>"},
	{"userfn-body-return", "<% let f = fn() { return ⟦F⟧ } %><%= f() %>"},
	{"userfn-body-out", "<% let f = fn() { %>a<%= ⟦F⟧ %>b<% } %><%= f() %>"},
	{"userfn-body-let", "<% let f = fn() { let z = ⟦F⟧\n return 1 } %><%= f() %>"},
	{"userfn-body-nested-if", "<% let f = fn(a) { if (a) { return ⟦F⟧ } return 2 } %><%= f(true) %>"},
	{"userfn-uncalled", "<% let f = fn() { return ⟦F⟧ } %>ok"},
	{"helper-block", "<%= cap() { %>a<%= ⟦F⟧ %>b<% } %>"},
	{"helper-block-silent", "<% cap() { %>a<%= ⟦F⟧ %>b<% } %>"},
	{"helper-block-with-ctx", "<%= capWith() { %>a<%= ⟦F⟧ %>b<% } %>"},
	{"helper-block-nested", "<%= cap() { %>a<%= cap() { %>c<%= ⟦F⟧ %>d<% } %>b<% } %>"},
	{"helper-block-arg", "<%= capArg(⟦F⟧) { %>a<% } %>"},
	{"contentFor-block-used", "<% contentFor(\"c\") { %>a<%= ⟦F⟧ %>b<% } %>x<%= contentOf(\"c\") %>"},
	{"contentFor-block-used-twice", "<% contentFor(\"c\") { %>a<%= ⟦F⟧ %>b<% } %>x<%= contentOf(\"c\") %><%= contentOf(\"c\") %>"},
	{"contentFor-block-unused", "<% contentFor(\"c\") { %>a<%= ⟦F⟧ %>b<% } %>x"},
	{"contentOf-data", "<% contentFor(\"c\") { %>a<%= d %>b<% } %>x<%= contentOf(\"c\", {d: ⟦F⟧}) %>"},
	{"contentOf-default-block", "<%= contentOf(\"undefined\") { %>a<%= ⟦F⟧ %>b<% } %>"},
	{"partial-body", "<%= partial(\"body\") %>"},
	{"partial-body-silent", "<% partial(\"body\") %>"},
	{"partial-data", "<%= partial(\"plain\", {d: ⟦F⟧}) %>"},
	{"partial-nested", "<%= partial(\"outer\") %>"},
	{"partial-with-layout-body", "<%= partial(\"body\", {layout: \"lay\"}) %>"},
	{"partial-layout-fails", "<%= partial(\"plain\", {layout: \"laybody\"}) %>"},
	{"partial-in-block", "<%= if (true) { %>a<%= partial(\"body\") %>b<% } %>"},
	{"after-output", "before<%= 1 %>text<%= ⟦F⟧ %>after"},
	{"after-block", "<%= if (true) { %>T<% } %><%= ⟦F⟧ %>"},
	{"in-hash-arg", "<%= opt({k: ⟦F⟧}) %>"},
	{"render-helper", "<%= rend() %>"},
	// shipped helpers that run a block or take arguments
	{"builtin-htmlEscape-block", "<%= htmlEscape() { %>a<%= ⟦F⟧ %>b<% } %>"},
	{"builtin-htmlEscape-block-silent", "<% htmlEscape() { %>a<%= ⟦F⟧ %>b<% } %>"},
	{"builtin-arg-len", "<%= len(⟦F⟧) %>"},
	{"builtin-arg-toJSON", "<%= toJSON(⟦F⟧) %>"},
	{"builtin-arg-truncate-option", "<%= truncate(\"abcdef\", {size: ⟦F⟧}) %>"},
	{"builtin-arg-range-in-for", "<%= for (v) in range(1, ⟦F⟧) { %>x<% } %>"},
	{"builtin-arg-groupBy", "<%= for (g) in groupBy(2, ⟦F⟧) { %>x<% } %>"},
	{"builtin-arg-raw", "<%= raw(⟦F⟧) %>"},
	{"contentOf-name", "<%= contentOf(⟦F⟧) { %>d<% } %>"},
	{"partial-name", "<%= partial(⟦F⟧) %>"},
	{"partial-layout-name", "<%= partial(\"plain\", {layout: ⟦F⟧}) %>"},
}

type c05Env struct {
	sentinel error
	calls    int
	trace    []string
	partials map[string]string
}

// c05Recv has a method that fails with a value in hand, and one that hands its argument back.
type c05Recv struct{ env *c05Env }

func (r c05Recv) FailV(x interface{}) (T, error) {
	return newT("value-of-the-failed-method"), r.env.sentinel
}
func (r c05Recv) Echo(x interface{}) interface{} { return x }

func c05Ctx(env *c05Env) *plush.Context {
	ctx := plush.NewContext()
	ctx.Set("fail", func(id string) (interface{}, error) {
		env.calls++
		return nil, env.sentinel
	})
	// the last result is declared as an interface that embeds error, not as error itself
	ctx.Set("okf", func(id string) string { return "fine" })
	ctx.Set("okf2", func(id string) (string, int) { return "fine", 2 })
	ctx.Set("failc", func(id string) (string, c05CodedError) {
		env.calls++
		env.sentinel = c05Coded{env.sentinel}
		return "result-of-the-failed-call", env.sentinel.(c05CodedError)
	})
	// an error whose value is the zero value of its (non-pointer) type is an error all the same
	ctx.Set("failz", func(id string) (string, error) {
		env.calls++
		env.sentinel = c05NotFound{}
		return "result-of-the-failed-call", env.sentinel
	})
	ctx.Set("faildl", func(id string) (string, error) {
		env.calls++
		env.sentinel = context.DeadlineExceeded
		return "", env.sentinel
	})
	ctx.Set("failunk", func(id string) (interface{}, error) {
		env.calls++
		env.sentinel = &plush.ErrUnknownIdentifier{ID: "fromHelper"}
		return nil, env.sentinel
	})
	ctx.Set("zero", func(id string) int { env.calls++; return 0 })
	ctx.Set("big", func(id string) int { env.calls++; return 99 })
	ctx.Set("val", func(id string, v interface{}) interface{} { env.calls++; return v })
	ctx.Set("ident", func(x interface{}) interface{} { return x })
	ctx.Set("two", func(a, b interface{}) interface{} { return a })
	ctx.Set("ci", func(i int) int { return i })
	ctx.Set("vari", func(xs ...interface{}) int { return len(xs) })
	ctx.Set("opt", func(m map[string]interface{}) int { return len(m) })
	ctx.Set("xs", []interface{}{1, 2, 3})
	ctx.Set("mp", map[string]int{"k": 1})
	ctx.Set("tt", newT("t"))
	ctx.Set("rv", c05Recv{env})
	ctx.Set("failv", func(id string) (T, error) {
		env.calls++
		return newT("value-of-the-failed-call"), env.sentinel
	})
	ptt := newT("pt")
	ctx.Set("ptt", &ptt)
	ctx.Set("cap", func(h plush.HelperContext) (template.HTML, error) {
		s, err := h.Block()
		return template.HTML(s), err
	})
	ctx.Set("capWith", func(h plush.HelperContext) (template.HTML, error) {
		s, err := h.BlockWith(h.New())
		return template.HTML(s), err
	})
	ctx.Set("capArg", func(x interface{}, h plush.HelperContext) (template.HTML, error) {
		s, err := h.Block()
		return template.HTML(s), err
	})
	ctx.Set("rend", func(h plush.HelperContext) (template.HTML, error) {
		s, err := h.Render(env.partials["body"])
		return template.HTML(s), err
	})
	ctx.Set("partialFeeder", func(n string) (string, error) {
		if n == "ferr" {
			env.calls++ // the instrumented fault: the application's feeder fails
			return "", env.sentinel
		}
		if n == "unk" {
			env.calls++ // the instrumented fault: a partial whose text uses an undefined name
			return "u<%= undefinedInPartial %>", nil
		}
		if s, ok := env.partials[n]; ok {
			return s, nil
		}
		return "", fmt.Errorf("no partial %s", n)
	})
	return ctx
}

const c05Prelude = "<% let ufe = fn(rv) { return rv } %><% let uf = fn(a) { return a } %><% let uf2 = fn(a, b) { return b } %><% let ufu = fn(a) { return nopeInBody } %><% let callf = fn(f) { return f(\"p\") } %>"

// fault expressions: the failing helper, and instrumented failing operations.
var c05Faults = []struct {
	name, expr string
	sentinel   bool // errors.Is(err, sentinel) is demanded
}{
	{"fail-helper", `fail("p")`, true},
	// one call site, several callees: the site that has just called a function that cannot fail calls one that does
	{"fail-helper-at-a-call-site-that-called-something-else-before", `[callf(okf), callf(okf2), callf(fail)][2]`, true},
	{"fail-helper-after-a-harmless-one-through-one-function", `uf2(callf(okf), callf(fail))`, true},
	{"fail-helper-error-declared-as-wider-interface", `failc("p")`, true},
	{"fail-helper-zero-valued-error", `failz("p")`, true},
	{"fail-helper-deadline-exceeded", `faildl("p")`, true},
	{"div-by-zero", `(1 / zero("p"))`, false},
	{"index-out-of-range", `xs[big("p")]`, false},
	{"type-mismatch", `(val("p", 1) - "a")`, false},
	{"bad-argument-type", `ci(val("p", "str"))`, false},
	{"missing-member", `val("p", tt).Nope`, false},
	{"missing-method", `val("p", tt).Nope()`, false},
	{"missing-method-on-pointer", `val("p", ptt).Nope()`, false},
	{"call-non-function", `two(val("p", 1), 2)()`, false},
	// errors whose chain contains an unknown-identifier error are still failures
	{"helper-returns-unknown-identifier-error", `failunk("p")`, true},
	{"partial-with-unknown-identifier", `partial("unk")`, false},
	{"partial-feeder-fails", `partial("ferr")`, true},
	{"layout-feeder-fails", `partial("plain", {layout: "ferr"})`, true},
	// an unknown identifier that is not itself the condition / operand is a failure like any other
	{"unknown-identifier-in-argument", `two(val("p", 1), nopeInArgument)`, false},
	{"unknown-identifier-in-function-body", `ufu(val("p", 1))`, false},
	{"unknown-identifier-indexed", `xs[val("p", 0)][nopeAsIndex]`, false},
	{"contentOf-undefined-name", `contentOf(val("p", "never-defined"))`, false},
	// the failing call's value is not looked at: a path that goes on after it does not get to run
	{"fail-helper-followed-by-a-member", `failv("p").Name`, true},
	{"fail-helper-followed-by-an-index", `failv("p").Tags[0]`, true},
	{"fail-method-followed-by-a-member", `rv.FailV(val("p", 1)).Name`, true},
	// an unknown name in a function's body is not forgiven for being spelt like the receiver of the call around it
	{"unknown-identifier-in-body-named-like-the-receiver", `rv.Echo(ufe(val("p", nil)))`, false},
}

func c05One(b *core.B, class, tmpl, faultName string, wantSentinel bool, body string) {
	full := c05Prelude + tmpl
	if !b.Begin(full) {
		return
	}
	env := &c05Env{sentinel: errors.New("SENTINEL-" + faultName), partials: map[string]string{}}
	env.partials["body"] = "pa<%= " + body + " %>pb"
	env.partials["plain"] = "plain<%= 1 %>"
	env.partials["outer"] = "o1<%= partial(\"body\") %>o2"
	env.partials["lay"] = "L(<%= yield %>)"
	env.partials["laybody"] = "L(<%= yield %><%= " + body + " %>)"
	res := render(b, full, c05Ctx(env))
	if res.Pan != nil {
		return
	}
	if env.calls == 0 {
		b.Count("position-not-reached")
		if res.Err != nil {
			b.Count("position-not-reached:render-error")
		}
		return
	}
	b.NonTrivialStr(full, body)
	b.Count("fault:" + faultName)
	b.Count("position:" + class)
	// name the innermost construct around the fault: the expression skeleton,
	// or the statement position when the fault is the whole expression
	sigClass := class
	if i := strings.Index(class, "/"); i >= 0 {
		if class[i+1:] == "bare" {
			sigClass = class[:i]
		} else {
			sigClass = class[i+1:]
		}
	}
	sigBase := sigClass + "|" + faultName + "|"
	switch {
	case res.Err == nil:
		b.Violate(sigBase+"silent-success", fmt.Sprintf("the fault was reached (%d invocation(s)) but Render returned err == nil, out=%q", env.calls, res.Out))
	case res.Out != "":
		// also reported by the universal monitor
	case wantSentinel && !errors.Is(res.Err, env.sentinel):
		b.Violate(sigBase+"error-not-wrapped", fmt.Sprintf("errors.Is(err, sentinel) is false: %v", res.Err))
	}
}

func c05Run(b *core.B) {
	exprs := c05ExprSkels()
	var idx int64
	mine := func() bool { idx++; return b.Mine(idx) }
	for _, f := range c05Faults {
		// depth 1: statement skeleton x expression skeleton
		for _, st := range c05StmtSkels {
			for _, ex := range exprs {
				if !mine() {
					continue
				}
				body := strings.Replace(ex.s, hole, f.expr, 1)
				c05One(b, st.name+"/"+ex.name, strings.Replace(st.s, hole, body, -1), f.name, f.sentinel, body)
			}
		}
	}
	// depth 2-3: nested expression skeletons (quick: sample; thorough: all pairs)
	r := b.Rng(5)
	n := 6000
	if b.Tier == core.Thorough {
		n = 3000000
	}
	for i := 0; i < n/b.NBatches; i++ {
		f := c05Faults[r.Intn(len(c05Faults))]
		body := f.expr
		names := []string{}
		for d := r.Range(2, 3); d > 0; d-- {
			ex := exprs[r.Intn(len(exprs))]
			body = strings.Replace(ex.s, hole, "("+body+")", 1)
			names = append(names, ex.name)
		}
		st := c05StmtSkels[r.Intn(len(c05StmtSkels))]
		tmpl := strings.Replace(st.s, hole, body, -1)
		if r.Chance(1, 3) {
			// nest the whole statement inside another block
			tmpl = pick(r, []string{"<%= if (true) { %>N<% } %>", "", "x<%= 2 %>"}) + pick(r, []string{"<%= for (w) in [1] { %>", "<%= if (true) { %>", "<%= cap() { %>"}) + tmpl + "<% } %>"
		}
		c05One(b, st.name+"/nested:"+names[len(names)-1], tmpl, f.name, f.sentinel, body)
	}

	// tolerance family: unknown identifiers count as nil in conditions and as
	// operands of ! == != && ||
	tol := []struct{ t, want string }{
		{"<%= if (nope) { %>T<% } else { %>F<% } %>", "F"},
		{"<%= if (false) { %>T<% } else if (nope) { %>U<% } else { %>F<% } %>", "F"},
		{"<%= !nope %>", "true"},
		{"<%= nope == nil %>", "true"},
		{"<%= nil == nope %>", "true"},
		{"<%= nope != nil %>", "false"},
		{"<%= nope != 1 %>", "true"},
		{"<%= nope && true %>", "false"},
		{"<%= true && nope %>", "false"},
		{"<%= nope || true %>", "true"},
		{"<%= false || nope %>", "false"},
		{"<%= if (!nope) { %>T<% } %>", "T"},
		{"<%= if (nope == nil) { %>T<% } %>", "T"},
		{"<%= if (nope || true) { %>T<% } %>", "T"},
	}
	if mine() && b.Begin("RenderR(failing reader)") {
		// the input itself cannot be read: the reader's error is the result
		sentinel := errors.New("SENTINEL-reader")
		var out string
		var err error
		pan := core.Guard(func() { out, err = plush.RenderR(iotest.ErrReader(sentinel), plush.NewContext()) })
		b.Count("fault:reader-fails")
		b.NonTrivialStr("reader-fails")
		switch {
		case pan != nil:
			b.Violate("RenderR|reader-fails|"+pan.Sig(), pan.Value)
		case err == nil || out != "":
			b.Violate("RenderR|reader-fails|silent-success", fmt.Sprintf("out=%q err=%v", out, err))
		case !errors.Is(err, sentinel):
			b.Violate("RenderR|reader-fails|error-not-wrapped", err.Error())
		}
	}
	for _, tc := range tol {
		if !mine() {
			continue
		}
		if !b.Begin(tc.t) {
			continue
		}
		res := render(b, tc.t, plush.NewContext())
		b.Count("tolerance")
		if res.Pan != nil {
			continue
		}
		if res.Err != nil || res.Out != tc.want {
			b.Violate("tolerance|unknown-identifier-not-nil", fmt.Sprintf("want %q, got %s", tc.want, res))
		}
	}
}

func init() {
	core.Register(&core.Prop{
		ID:         "C05",
		Level:      "fault_enumeration",
		Rule:       fmt.Sprintf("faults: a failing helper returning a unique sentinel error, plus 6 instrumented failing operations (division by zero, index out of range, type mismatch, bad argument type, missing member, calling a non-function) whose instrumented operand proves the operation was reached, a helper whose error is itself an unknown-identifier error, a partial whose text fails, the application's partial feeder failing for the partial and for its layout, and contentOf of a name never defined; positions: %d statement/body positions (tags, let/assign, conditions, branch bodies, loop iterable/body, function bodies, helper blocks, contentFor/contentOf, partial body/data/layout/name, after output, block and arguments of the shipped helpers htmlEscape, len, toJSON, truncate, range, groupBy, raw) x %d expression positions (operand of each operator left and right, !, array/hash element, index, container, helper/user-function/variadic/method argument), all pairs enumerated for every fault, nestings of depth 2-3 sampled. A case is non-trivial when the instrumented helper's invocation counter is > 0 after the render (untaken/short-circuited positions are counted separately). Oracle: err != nil, out == \"\", errors.Is(err, sentinel) for helper errors.", len(c05StmtSkels), len(c05ExprSkels())),
		Assume:     []string{"the tolerated fault (unknown identifier as condition or operand of ! == != && ||) is checked separately and must not fail"},
		Batches:    batchesQT(16, 32),
		Run:        c05Run,
		Exhaustive: func(core.Tier) bool { return true },
	})
}
