package props

import (
	"fmt"
	"html/template"
	"math"
	"reflect"
	"strings"

	"github.com/gobuffalo/plush/v5"
	"github.com/gobuffalo/plush/v5/helpers/iterators"
	"github.com/gobuffalo/plush/v5/helpers/meta"

	"verifharness/internal/core"
)

// C19 — iterator and collection helpers produce exact sequences and partitions.

type nexter interface{ Next() interface{} }

// expectSeq gives the first up-to-64 expected elements and whether more follow.
func expectSeq(lo, hi int, empty bool) ([]int, bool) {
	if empty || lo > hi {
		return nil, false
	}
	var out []int
	v := lo
	for {
		out = append(out, v)
		if v == hi {
			return out, false
		}
		if len(out) == 64 {
			return out, true
		}
		v++
	}
}

// drain pulls at most len(want)+2 values; termination is decided by count.
func c19Drain(b *core.B, name string, it nexter, want []int, more bool) {
	limit := len(want) + 2
	var got []int
	ended := false
	for i := 0; i < limit; i++ {
		v := it.Next()
		if v == nil {
			ended = true
			break
		}
		n, ok := v.(int)
		if !ok {
			b.Violate("iterator-yields-non-int|"+name, fmt.Sprintf("Next() returned %T", v))
			return
		}
		got = append(got, n)
	}
	cmp := got
	if len(cmp) > len(want) {
		cmp = cmp[:len(want)]
	}
	if fmt.Sprint(cmp) != fmt.Sprint(want) && !(len(cmp) == 0 && len(want) == 0) {
		b.Violate("wrong-sequence|"+name+"|"+c19SeqClass(want, got), fmt.Sprintf("want %v%s, got %v", want, map[bool]string{true: " ...", false: ""}[more], got))
		return
	}
	if !more && !ended {
		b.Violate("does-not-terminate|"+name, fmt.Sprintf("expected the sequence %v to end; %d Next() calls returned values: %v", want, limit, got))
		return
	}
	if more && ended {
		b.Violate("wrong-sequence|"+name+"|ends-early", fmt.Sprintf("want at least %d more values after %v, iterator ended", 1, got))
	}
}

func c19SeqClass(want, got []int) string {
	switch {
	case len(want) == 0:
		return "nonempty-for-empty-interval"
	case len(got) == 0:
		return "empty-for-nonempty-interval"
	}
	return "wrong-elements"
}

func c19Ctx() *plush.Context {
	ctx := plush.NewContext()
	ctx.Set("imin", math.MinInt)
	ctx.Set("imin1", math.MinInt+1)
	ctx.Set("imin2", math.MinInt+2)
	ctx.Set("imax", math.MaxInt)
	ctx.Set("imax1", math.MaxInt-1)
	ctx.Set("imax2", math.MaxInt-2)
	return ctx
}

// c19LiveIterators: several iterators are alive at once, made at any time and asked in any
// order (nested loops left by break do that). Each is a sequence of its own: what one has
// handed out, or that it has ended, changes nothing about another; an ended one stays ended.
func c19LiveIterators(b *core.B) {
	type live struct {
		it    nexter
		what  string
		want  []int
		pos   int
		asked int
	}
	for round := 0; round < 300; round++ {
		r := core.Derive(b.Seed, 0xC19A, uint64(round))
		if !b.Begin(fmt.Sprintf("live iterators, round %d", round)) {
			continue
		}
		var ls []*live
		var log []string
		for step := 0; step < 60; step++ {
			if len(ls) == 0 || r.Chance(1, 4) {
				a, c := r.Range(-2, 4), r.Range(0, 6)
				l := &live{}
				switch r.Intn(3) {
				case 0:
					l.it, l.what = iterators.Range(a, c), fmt.Sprintf("Range(%d, %d)", a, c)
					l.want, _ = expectSeq(a, c, false)
				case 1:
					l.it, l.what = iterators.Between(a, c), fmt.Sprintf("Between(%d, %d)", a, c)
					l.want, _ = expectSeq(a+1, c-1, false)
				default:
					l.it, l.what = iterators.Until(c), fmt.Sprintf("Until(%d)", c)
					l.want, _ = expectSeq(0, c-1, false)
				}
				ls = append(ls, l)
				log = append(log, fmt.Sprintf("#%d = %s", len(ls)-1, l.what))
				continue
			}
			k := r.Intn(len(ls))
			l := ls[k]
			if l.asked > len(l.want)+3 {
				continue
			}
			l.asked++
			v := l.it.Next()
			log = append(log, fmt.Sprintf("#%d.Next() = %v", k, v))
			var want interface{}
			if l.pos < len(l.want) {
				want = l.want[l.pos]
				l.pos++
			}
			if v != want {
				if len(log) > 24 {
					log = log[len(log)-24:]
				}
				b.Violate("live-iterators|one-changes-another", fmt.Sprintf("#%d is %s and must yield %v now (nil = ended), got %v\n%s", k, l.what, want, v, strings.Join(log, "\n")))
				return
			}
		}
		b.NonTrivialStr("live-iterators", fmt.Sprint(round))
		b.Count("live-iterators:rounds")
	}
}

func c19Run(b *core.B) {
	small := []int{}
	lim := 8
	if b.Tier == core.Thorough {
		lim = 24
	}
	for i := -lim; i <= lim; i++ {
		small = append(small, i)
	}
	ext := []int{math.MinInt, math.MinInt + 1, math.MaxInt - 1, math.MaxInt}
	all := append(append([]int{}, small...), ext...)
	var idx int64
	mine := func() bool { idx++; return b.Mine(idx) }
	if b.Batch == 0 {
		c19LiveIterators(b)
	}

	// range / between / until, direct calls
	for _, a := range all {
		for _, c := range all {
			if mine() && b.Begin(fmt.Sprintf("iterators.Range(%d, %d)", a, c)) {
				want, more := expectSeq(a, c, false)
				c19Drain(b, "range", iterators.Range(a, c), want, more)
				b.NonTrivialDistinct()
				b.Count("range")
			}
			if mine() && b.Begin(fmt.Sprintf("iterators.Between(%d, %d)", a, c)) {
				// a+1 .. c-1, empty when that would overflow
				empty := a == math.MaxInt || c == math.MinInt
				var want []int
				var more bool
				if !empty {
					want, more = expectSeq(a+1, c-1, false)
				}
				c19Drain(b, "between", iterators.Between(a, c), want, more)
				b.NonTrivialDistinct()
				b.Count("between")
			}
		}
		if mine() && b.Begin(fmt.Sprintf("iterators.Until(%d)", a)) {
			var want []int
			var more bool
			if a > 0 {
				want, more = expectSeq(0, a-1, false)
			}
			c19Drain(b, "until", iterators.Until(a), want, more)
			b.NonTrivialDistinct()
			b.Count("until")
		}
	}
	// through a template for loop (small values and short extreme intervals)
	tmplCase := func(call string, want []int) {
		t := "<%= for (v) in " + call + " { %>[<%= v %>]<% } %>"
		if !mine() || !b.Begin(t) {
			return
		}
		res := render(b, t, c19Ctx())
		b.NonTrivialDistinct()
		b.Count("template-loop")
		if res.Pan != nil {
			return
		}
		var sb strings.Builder
		for _, v := range want {
			fmt.Fprintf(&sb, "[%d]", v)
		}
		if res.Err != nil {
			b.Violate("template-loop-rejected|"+strings.SplitN(call, "(", 2)[0]+"|"+core.ErrClass(res.Err), fmt.Sprintf("want %q, got error %v", sb.String(), res.Err))
		} else if res.Out != sb.String() {
			b.Violate("wrong-sequence|template:"+strings.SplitN(call, "(", 2)[0], fmt.Sprintf("want %q, got %q", sb.String(), res.Out))
		}
	}
	neg := func(n int) string {
		if n < 0 {
			return fmt.Sprintf("0 - %d", -n)
		}
		return fmt.Sprint(n)
	}
	for _, a := range small {
		for _, c := range small {
			w, _ := expectSeq(a, c, false)
			tmplCase("range("+neg(a)+", "+neg(c)+")", w)
			w, _ = expectSeq(a+1, c-1, false)
			tmplCase("between("+neg(a)+", "+neg(c)+")", w)
		}
		var w []int
		if a > 0 {
			w, _ = expectSeq(0, a-1, false)
		}
		tmplCase("until("+neg(a)+")", w)
	}

	// the template-level helpers at the extremes of int: short intervals in full,
	// huge ones left early with break (the loop must not depend on their length)
	exNames := map[string]int{"imin": math.MinInt, "imin1": math.MinInt + 1, "imin2": math.MinInt + 2, "imax": math.MaxInt, "imax1": math.MaxInt - 1, "imax2": math.MaxInt - 2, "0": 0, "3": 3}
	exKeys := []string{"imin", "imin1", "imin2", "imax", "imax1", "imax2", "0", "3"}
	for _, an := range exKeys {
		for _, cn := range exKeys {
			a, c := exNames[an], exNames[cn]
			if w, more := expectSeq(a, c, false); !more {
				tmplCase("range("+an+", "+cn+")", w)
			} else {
				breakCase(b, &idx, "range("+an+", "+cn+")", w[:3])
			}
			if a != math.MaxInt && c != math.MinInt {
				if w, more := expectSeq(a+1, c-1, false); !more {
					tmplCase("between("+an+", "+cn+")", w)
				} else {
					breakCase(b, &idx, "between("+an+", "+cn+")", w[:3])
				}
			} else {
				tmplCase("between("+an+", "+cn+")", nil)
			}
		}
		if a := exNames[an]; a > 0 {
			if w, more := expectSeq(0, a-1, false); !more {
				tmplCase("until("+an+")", w)
			} else {
				breakCase(b, &idx, "until("+an+")", w[:3])
			}
		} else {
			tmplCase("until("+an+")", nil)
		}
	}

	// groupBy: both implementations, partition laws
	type elemKind struct {
		name string
		mk   func(n int) interface{}
	}
	kinds := []elemKind{
		{"[]string", func(n int) interface{} {
			xs := make([]string, n)
			for i := range xs {
				xs[i] = fmt.Sprint("s", i)
			}
			return xs
		}},
		{"[]int", func(n int) interface{} {
			xs := make([]int, n)
			for i := range xs {
				xs[i] = i
			}
			return xs
		}},
		{"[]struct", func(n int) interface{} {
			xs := make([]T, n)
			for i := range xs {
				xs[i] = T{N: i}
			}
			return xs
		}},
		{"[]*struct", func(n int) interface{} {
			xs := make([]*T, n)
			for i := range xs {
				xs[i] = &T{N: i}
			}
			return xs
		}},
		{"*[]int", func(n int) interface{} {
			xs := make([]int, n)
			for i := range xs {
				xs[i] = i
			}
			return &xs
		}},
		{"[5]int", func(n int) interface{} { return [5]int{0, 1, 2, 3, 4} }},
		{"*[5]int", func(n int) interface{} { return &[5]int{0, 1, 2, 3, 4} }},
	}
	maxLen := 40
	for _, k := range kinds {
		for ln := 0; ln <= maxLen; ln++ {
			if strings.Contains(k.name, "[5]") && ln != 5 {
				continue
			}
			for n := -2; n <= 12; n++ {
				if !mine() || !b.Begin(fmt.Sprintf("groupBy(%d, %s of length %d)", n, k.name, ln)) {
					continue
				}
				c19GroupBy(b, k.name, n, k.mk(ln))
				b.NonTrivialDistinct()
				b.Count("groupBy:" + k.name)
			}
		}
	}
	// a group count at the top of the int range: more groups than elements, one element each
	for _, k := range kinds {
		for _, ln := range []int{0, 1, 2, 3, 5, 40} {
			if strings.Contains(k.name, "[5]") && ln != 5 {
				continue
			}
			for _, n := range []int{math.MaxInt, math.MaxInt - 1, math.MaxInt - 4, math.MaxInt / 2, 1 << 40, math.MinInt} {
				if !mine() || !b.Begin(fmt.Sprintf("groupBy(%d, %s of length %d)", n, k.name, ln)) {
					continue
				}
				c19GroupBy(b, k.name, n, k.mk(ln))
				b.NonTrivialDistinct()
				b.Count("groupBy:n-at-the-extremes-of-int")
			}
		}
	}
	r := b.Rng(3)
	nRand := 2000
	if b.Tier == core.Thorough {
		nRand = 2000000
	}
	for i := 0; i < nRand/b.NBatches; i++ {
		k := kinds[r.Intn(5)]
		ln, n := r.Range(0, 400), r.Range(-1, 60)
		if !b.Begin(fmt.Sprintf("groupBy(%d, %s of length %d) [random]", n, k.name, ln)) {
			continue
		}
		c19GroupBy(b, k.name, n, k.mk(ln))
		b.NonTrivialStr(fmt.Sprint(k.name, ln, n))
	}
	for _, bad := range []interface{}{1, "str", nil, map[string]int{"a": 1}, T{}, 2.5} {
		if !mine() || !b.Begin(fmt.Sprintf("groupBy(2, %T)", bad)) {
			continue
		}
		b.NonTrivialDistinct()
		var e1, e2 error
		pan := core.Guard(func() {
			_, e1 = iterators.GroupBy(2, bad)
			_, e2 = plush.GroupByHelper(2, bad)
		})
		if pan != nil {
			b.Violate(pan.Sig(), pan.Value)
		} else if e1 == nil || e2 == nil {
			b.Violate("groupBy-accepts-non-sequence", fmt.Sprintf("%T: iterators.GroupBy err=%v, plush.GroupByHelper err=%v", bad, e1, e2))
		}
	}

	// an exhausted iterator stays exhausted: more calls of Next, and a second loop over an
	// iterator kept in a variable, yield nothing
	for _, mk := range []struct {
		name string
		it   func() iterators.Iterator
		tmpl string
	}{
		{"until(0)", func() iterators.Iterator { return iterators.Until(0) }, "until(0)"},
		{"until(3)", func() iterators.Iterator { return iterators.Until(3) }, "until(3)"},
		{"range(2, 4)", func() iterators.Iterator { return iterators.Range(2, 4) }, "range(2, 4)"},
		{"range(4, 2)", func() iterators.Iterator { return iterators.Range(4, 2) }, "range(4, 2)"},
		{"between(0, 1)", func() iterators.Iterator { return iterators.Between(0, 1) }, "between(0, 1)"},
		{"between(MaxInt, 5)", func() iterators.Iterator { return iterators.Between(math.MaxInt, 5) }, "between(imax, 5)"},
		{"between(1, 4)", func() iterators.Iterator { return iterators.Between(1, 4) }, "between(1, 4)"},
	} {
		if !mine() || !b.Begin("exhausted stays exhausted: "+mk.name) {
			continue
		}
		b.NonTrivialDistinct()
		b.Count("exhausted-iterator-asked-again")
		pan := core.Guard(func() {
			it := mk.it()
			n := 0
			for it.Next() != nil && n < 100 {
				n++
			}
			for k := 0; k < 3; k++ {
				if v := it.Next(); v != nil {
					b.Violate("iterator-yields-after-its-end", fmt.Sprintf("%s: after %d elements and nil, call %d of Next() gave %v", mk.name, n, k+1, v))
					return
				}
			}
			ctx := plush.NewContext()
			ctx.Set("imax", math.MaxInt)
			res := render(b, "<% let it = "+mk.tmpl+" %>[<%= for (v) in it { %><%= v %>,<% } %>][<%= for (v) in it { %><%= v %>,<% } %>]", ctx)
			if res.Pan == nil && (res.Err != nil || !strings.HasSuffix(res.Out, "][]")) {
				b.Violate("iterator-yields-after-its-end|template", fmt.Sprintf("%s looped over twice: %s", mk.name, res))
			}
		})
		if pan != nil {
			b.Violate(pan.Sig(), pan.Value)
		}
	}

	// len
	lens := []struct {
		v    interface{}
		want int
	}{
		{"", 0}, {"abc", 3}, {"é✓", 5}, {"\xff\xfe", 2}, {[]int{1, 2}, 2}, {[]string{}, 0}, {[3]int{}, 3}, {map[string]int{"a": 1}, 1},
		{&[]int{1, 2, 3}, 3}, {&[2]int{}, 2}, {&map[int]int{1: 1, 2: 2}, 2}, {[]interface{}{nil, nil}, 2}, {map[string]int(nil), 0}, {[]int(nil), 0},
		// a string is a string whatever its type is called; named slice / map types; pointers to them
		{template.HTML("<b>x</b>"), 8}, {namedStr("named"), 5}, {c19PtrTo(namedStr("pn")), 2}, {c19PtrTo("plain"), 5}, {c19PtrTo(template.HTML("é")), 2},
		{c19Ints{1, 2, 3}, 3}, {c19Map{"a": 1}, 1}, {&c19Ints{4}, 1}, {[]namedStr{"a", "b"}, 2}, {[2]template.HTML{}, 2},
		// ... also when the type has methods of its own (String, HTML, Error): the length is that of the value, not of a text
		{c19Tags{"go", "web", "x"}, 3}, {&c19Tags{"go"}, 1}, {c19IP{10, 0, 0, 1}, 4}, {c19Set{"a": true, "b": true}, 2}, {c19Word("hello"), 5}, {c19Pair{1, 2}, 2}, {c19Errs{"e1"}, 1},
	}
	for _, c := range lens {
		if !mine() || !b.Begin(fmt.Sprintf("len(%#v)", c.v)) {
			continue
		}
		b.NonTrivialDistinct()
		b.Count("len")
		var got int
		pan := core.Guard(func() { got = meta.Len(c.v) })
		if pan != nil {
			b.Violate(pan.Sig(), pan.Value)
			continue
		}
		if got != c.want {
			b.Violate("wrong-len", fmt.Sprintf("meta.Len(%#v) = %d, Go len = %d", c.v, got, c.want))
		}
		ctx := plush.NewContext()
		ctx.Set("x", c.v)
		res := render(b, "<%= len(x) %>", ctx)
		if res.Pan == nil && (res.Err != nil || res.Out != fmt.Sprint(c.want)) {
			b.Violate("wrong-len|template", fmt.Sprintf("<%%= len(x) %%> with x = %#v gave %s, want %d", c.v, res, c.want))
		}
	}
}

type c19Ints []int
type c19Map map[string]int

func c19PtrTo[V any](v V) *V { return &v }

// breakCase loops over a huge interval and leaves after three elements.
func breakCase(b *core.B, idx *int64, call string, first3 []int) {
	*idx++
	if !b.Mine(*idx) {
		return
	}
	t := "<%= for (k, v) in " + call + " { %>[<%= v %>]<% if (k == 2) { break } %><% } %>"
	if !b.Begin(t) {
		return
	}
	res := render(b, t, c19Ctx())
	b.NonTrivialDistinct()
	b.Count("template-loop-with-break-over-huge-interval")
	if res.Pan != nil {
		return
	}
	want := ""
	for _, v := range first3 {
		want += fmt.Sprintf("[%d]", v)
	}
	if res.Err != nil {
		b.Violate("template-loop-rejected|"+strings.SplitN(call, "(", 2)[0]+"|"+core.ErrClass(res.Err), fmt.Sprintf("want %q, got error %v", want, res.Err))
	} else if res.Out != want {
		b.Violate("wrong-sequence|template:"+strings.SplitN(call, "(", 2)[0], fmt.Sprintf("want %q, got %q", want, res.Out))
	}
}

func c19GroupBy(b *core.B, kind string, n int, xs interface{}) {
	var it1 iterators.Iterator
	var it2 interface{ Next() interface{} }
	var e1, e2 error
	pan := core.Guard(func() {
		it1, e1 = iterators.GroupBy(n, xs)
		g2, err := plush.GroupByHelper(n, xs)
		e2 = err
		if err == nil {
			it2 = g2
		}
	})
	if pan != nil {
		b.Violate(pan.Sig(), pan.Value)
		return
	}
	if (e1 == nil) != (e2 == nil) {
		b.Violate("groupBy-implementations-disagree|error", fmt.Sprintf("iterators.GroupBy err=%v, plush.GroupByHelper err=%v", e1, e2))
		return
	}
	if n <= 0 {
		if e1 == nil {
			b.Violate("groupBy-accepts-nonpositive-n", fmt.Sprintf("n=%d", n))
		}
		return
	}
	if e1 != nil {
		b.Violate("groupBy-rejects-sequence|"+kind, fmt.Sprintf("n=%d: %v", n, e1))
		return
	}
	src := reflect.Indirect(reflect.ValueOf(xs))
	total := src.Len()
	collect := func(it interface{ Next() interface{} }) ([]reflect.Value, bool) {
		var gs []reflect.Value
		for i := 0; i <= total+2; i++ {
			g := it.Next()
			if g == nil {
				return gs, true
			}
			gs = append(gs, reflect.ValueOf(g))
		}
		return gs, false
	}
	g1, end1 := collect(it1)
	g2, end2 := collect(it2)
	if !end1 || !end2 {
		b.Violate("does-not-terminate|groupBy", fmt.Sprintf("n=%d len=%d", n, total))
		return
	}
	desc := func(gs []reflect.Value) string {
		ss := []string{}
		for _, g := range gs {
			ss = append(ss, fmt.Sprint(g.Len()))
		}
		return "group sizes [" + strings.Join(ss, " ") + "]"
	}
	if len(g1) != len(g2) {
		b.Violate("groupBy-implementations-disagree|groups", fmt.Sprintf("n=%d len=%d: %s vs %s", n, total, desc(g1), desc(g2)))
		return
	}
	for which, gs := range [][]reflect.Value{g1, g2} {
		name := []string{"iterators.GroupBy", "plush.GroupByHelper"}[which]
		if len(gs) > n {
			b.Violate("groupBy-too-many-groups", fmt.Sprintf("%s n=%d len=%d: %s", name, n, total, desc(gs)))
			return
		}
		pos := 0
		for gi, g := range gs {
			if g.Kind() != reflect.Slice && g.Kind() != reflect.Array {
				b.Violate("groupBy-group-not-a-sequence", fmt.Sprintf("%s: group %d is %s", name, gi, g.Type()))
				return
			}
			if gi < len(gs)-1 && g.Len() != gs[0].Len() {
				b.Violate("groupBy-unequal-groups", fmt.Sprintf("%s n=%d len=%d: %s", name, n, total, desc(gs)))
				return
			}
			if gi == len(gs)-1 && g.Len() > gs[0].Len() {
				b.Violate("groupBy-unequal-groups", fmt.Sprintf("%s n=%d len=%d: last group larger: %s", name, n, total, desc(gs)))
				return
			}
			if g.Len() == 0 {
				b.Violate("groupBy-empty-group", fmt.Sprintf("%s n=%d len=%d: %s", name, n, total, desc(gs)))
				return
			}
			for j := 0; j < g.Len(); j++ {
				if pos >= total || !reflect.DeepEqual(g.Index(j).Interface(), src.Index(pos).Interface()) {
					b.Violate("groupBy-not-a-partition", fmt.Sprintf("%s n=%d len=%d: element %d of group %d is not element %d of the input", name, n, total, j, gi, pos))
					return
				}
				pos++
			}
		}
		if pos != total {
			b.Violate("groupBy-not-a-partition", fmt.Sprintf("%s n=%d len=%d: groups cover %d elements: %s", name, n, total, pos, desc(gs)))
			return
		}
	}
}

func init() {
	core.Register(&core.Prop{
		ID:         "C19",
		Level:      "exploration",
		Rule:       "range(a,b), between(a,b), until(n) called directly for all a, b, n in [-8, 8] (thorough: [-24, 24]) and {MinInt, MinInt+1, MaxInt-1, MaxInt} (all pairs, 441 + extremes) with expectations from overflow-checked arithmetic (sequences longer than 64 are checked on their first 64 elements and for not ending early) and drained with a Next() budget of expected+2, so termination is decided by count; the same helpers through a template for loop for all small arguments; iterators.GroupBy and plush.GroupByHelper for every length 0-40 x n in [-2, 12] (and n at the extremes of int for six lengths) x {[]string, []int, []struct, []*struct, *[]int, [5]int, *[5]int} plus random larger cases, judged by the partition laws (at most n groups, consecutive, concatenation = input, all but the last of equal size, errors for n <= 0 and non-sequences) and against each other; len on strings (multi-byte, invalid UTF-8, named string types such as template.HTML), slices, arrays, maps (also of named types), pointers to them, directly and through a template. Enumerated cases are distinct by construction.",
		Assume:     []string{"element order of a sequence is what Next() returns until the first nil"},
		Batches:    batchesQT(8, 16),
		Run:        c19Run,
		Exhaustive: func(core.Tier) bool { return true },
	})
}

type c19Tags []string

func (t c19Tags) String() string {
	return "tags:" + strings.Join(t, "+") + " (a text of another length)"
}

type c19Set map[string]bool

func (s c19Set) String() string { return "a set with some members in it" }

type c19Word string

func (w c19Word) String() string { return "the word " + string(w) }

type c19Pair [2]int

func (p c19Pair) HTML() template.HTML { return "<i>pair of two numbers</i>" }

type c19Errs []string

func (e c19Errs) Error() string { return "several errors happened here" }

// c19IP is a byte slice with a String method, like net.IP. (Package net itself is kept out of the harness: it links
// cgo in, and with cgo the runtime no longer reports "all goroutines are asleep - deadlock!", which is how a lock
// left locked by the library shows up in a worker.)
type c19IP []byte

func (ip c19IP) String() string { return fmt.Sprintf("%d.%d.%d.%d", ip[0], ip[1], ip[2], ip[3]) }
