package props

import (
	"fmt"
	"html/template"
	"math"
	"sort"
	"strings"

	"github.com/gobuffalo/plush/v5"

	"verifharness/internal/core"
)

// C08 — for loops visit every element once, in order; break/continue.

type lCond struct {
	kind string // true false keq kgt klt veq
	n    int
	s    string // rendered value to compare with (veq)
	src  string // literal source for veq
}

type lStmt struct {
	kind  string // text key val let fnlit inner ctl ifblk retv
	text  string
	cond  lCond
	act   string // break continue return
	form  int
	body  []lStmt
	inner []int
}

const (
	sigNone = iota
	sigBreak
	sigContinue
	sigReturn
)

type lElem struct {
	k, v string
	ki   int
}

func (c lCond) eval(e lElem) bool {
	switch c.kind {
	case "true":
		return true
	case "false":
		return false
	case "keq":
		return e.ki == c.n
	case "kgt":
		return e.ki > c.n
	case "klt":
		return e.ki < c.n
	case "veq":
		return e.v == c.s
	}
	return false
}

func (c lCond) print(d int) string {
	switch c.kind {
	case "true", "false":
		return c.kind
	case "keq":
		return fmt.Sprintf("k%d == %d", d, c.n)
	case "kgt":
		return fmt.Sprintf("k%d > %d", d, c.n)
	case "klt":
		return fmt.Sprintf("k%d < %d", d, c.n)
	}
	return fmt.Sprintf("v%d == %s", d, c.src)
}

// loopInterp is the reference: one body evaluation per element.
func loopBody(body []lStmt, e lElem, silent bool) (string, int) {
	var out strings.Builder
	for _, st := range body {
		switch st.kind {
		case "text":
			if !silent {
				out.WriteString(st.text)
			}
		case "key":
			out.WriteString(e.k)
		case "val":
			out.WriteString(e.v)
		case "let", "fnlit":
		case "innersep":
			// separator idiom: a variable of the outer body assigned inside the inner loop
			for j, x := range st.inner {
				if j > 0 {
					out.WriteString(",")
				}
				out.WriteString(fmt.Sprint(x))
			}
		case "inner":
			var in strings.Builder
			for j, x := range st.inner {
				o, s := loopBody(st.body, lElem{k: fmt.Sprint(j), v: fmt.Sprint(x), ki: j}, silent)
				in.WriteString(o)
				if s == sigBreak {
					break
				}
			}
			if st.form == 0 { // output loop; form 1 is a silent loop (value discarded)
				out.WriteString(in.String())
			}
		case "ctl":
			if st.cond.eval(e) {
				if st.form == 2 {
					out.WriteString(st.text)
				}
				switch st.act {
				case "break":
					return out.String(), sigBreak
				case "continue":
					return out.String(), sigContinue
				default:
					out.WriteString("R")
					return out.String(), sigReturn
				}
			}
		case "ifblk":
			if st.cond.eval(e) {
				o, s := loopBody(st.body, e, silent)
				out.WriteString(o)
				if s != sigNone {
					return out.String(), s
				}
			}
		case "capblk":
			// the block of a block helper is part of the loop body: the helper hands
			// back what the block produced, break / continue reach the loop
			o, s := loopBody(st.body, e, false)
			out.WriteString(o)
			if s != sigNone {
				return out.String(), s
			}
		case "retv":
			switch st.text {
			case "k":
				out.WriteString(e.k)
			case "v":
				out.WriteString(e.v)
			default:
				out.WriteString(st.text)
			}
			return out.String(), sigReturn
		}
	}
	return out.String(), sigNone
}

func actSrc(a string) string {
	if a == "return" {
		return `return "R"`
	}
	return a
}

// printMulti prints a body in multi-tag layout at loop depth d.
func printMulti(body []lStmt, d int) string {
	var sb strings.Builder
	for _, st := range body {
		switch st.kind {
		case "text":
			sb.WriteString(st.text)
		case "key":
			fmt.Fprintf(&sb, "<%%= k%d %%>", d)
		case "val":
			fmt.Fprintf(&sb, "<%%= v%d %%>", d)
		case "let":
			sb.WriteString("<% let q = 5 %>")
		case "fnlit":
			sb.WriteString("<% let g = fn(a) { return a } %>")
		case "innersep":
			fmt.Fprintf(&sb, "<%% let sep%d = \"\" %%><%%= for (k%d, v%d) in %s { %%><%%= sep%d %%><%%= v%d %%><%% sep%d = \",\" %%><%% } %%>", d, d+1, d+1, intsLit(st.inner), d, d+1, d)
		case "inner":
			tag := "<%="
			if st.form == 1 {
				tag = "<%"
			}
			fmt.Fprintf(&sb, "%s for (k%d, v%d) in %s { %%>%s<%% } %%>", tag, d+1, d+1, intsLit(st.inner), printMulti(st.body, d+1))
		case "ctl":
			switch st.form {
			case 0:
				fmt.Fprintf(&sb, "<%% if (%s) { %s } %%>", st.cond.print(d), actSrc(st.act))
			case 1:
				fmt.Fprintf(&sb, "<%% if (%s) { %%><%% %s %%><%% } %%>", st.cond.print(d), actSrc(st.act))
			case 2:
				fmt.Fprintf(&sb, "<%%= if (%s) { %%>%s<%% %s %%><%% } %%>", st.cond.print(d), st.text, actSrc(st.act))
			}
		case "ifblk":
			fmt.Fprintf(&sb, "<%%= if (%s) { %%>%s<%% } %%>", st.cond.print(d), printMulti(st.body, d))
		case "capblk":
			fmt.Fprintf(&sb, "<%%= cap() { %%>%s<%% } %%>", printMulti(st.body, d))
		case "retv":
			fmt.Fprintf(&sb, "<%% return %s %%>", retSrc(st.text, d))
		}
	}
	return sb.String()
}

func retSrc(t string, d int) string {
	switch t {
	case "k":
		return fmt.Sprintf("k%d", d)
	case "v":
		return fmt.Sprintf("v%d", d)
	}
	return `"` + t + `"`
}

// printSingle prints a (text-free) body as code inside one tag.
func printSingle(body []lStmt, d int) string {
	var sb strings.Builder
	for _, st := range body {
		switch st.kind {
		case "let":
			sb.WriteString("let q = 5\n")
		case "fnlit":
			sb.WriteString("let g = fn(a) { return a }\n")
		case "inner":
			fmt.Fprintf(&sb, "for (k%d, v%d) in %s {\n%s}\n", d+1, d+1, intsLit(st.inner), printSingle(st.body, d+1))
		case "ctl":
			fmt.Fprintf(&sb, "if (%s) { %s }\n", st.cond.print(d), actSrc(st.act))
		case "ifblk":
			fmt.Fprintf(&sb, "if (%s) {\n%s}\n", st.cond.print(d), printSingle(st.body, d))
		case "retv":
			fmt.Fprintf(&sb, "return %s\n", retSrc(st.text, d))
		}
	}
	return sb.String()
}

func intsLit(xs []int) string {
	ss := make([]string, len(xs))
	for i, x := range xs {
		ss[i] = fmt.Sprint(x)
	}
	return "[" + strings.Join(ss, ", ") + "]"
}

type c08Gen struct {
	r       *core.Rng
	vals    []string // rendered values available for veq
	valSrc  []string
	noKey   bool
	noBreak bool
	noRet   bool // inside a helper's block: only break / continue leave it for the loop
	classes map[string]bool
}

func (g *c08Gen) cond(nElems int) lCond {
	k := g.r.Intn(6)
	if g.noKey && k >= 2 && k <= 4 {
		k = 5
	}
	switch k {
	case 0:
		return lCond{kind: "true"}
	case 1:
		return lCond{kind: "false"}
	case 2:
		return lCond{kind: "keq", n: g.r.Intn(nElems + 1)}
	case 3:
		return lCond{kind: "kgt", n: g.r.Intn(nElems + 1)}
	case 4:
		return lCond{kind: "klt", n: g.r.Intn(nElems + 1)}
	}
	if len(g.vals) == 0 {
		return lCond{kind: "true"}
	}
	i := g.r.Intn(len(g.vals))
	return lCond{kind: "veq", s: g.vals[i], src: g.valSrc[i]}
}

func (g *c08Gen) act() string {
	a := pick(g.r, []string{"break", "continue", "return"})
	if g.noBreak && a == "break" {
		a = "continue"
	}
	if g.noRet && a == "return" {
		a = "continue"
	}
	return a
}

func (g *c08Gen) body(depth, nElems int, single bool) []lStmt {
	n := g.r.Range(1, 5)
	out := []lStmt{}
	for i := 0; i < n; i++ {
		k := g.r.Intn(12)
		switch {
		case k < 2 && !single:
			out = append(out, lStmt{kind: "text", text: pick(g.r, []string{"a", "b", ".", "-", "x ", "\n", "<i>", "é"})})
		case k == 2 && !single:
			if g.noKey {
				out = append(out, lStmt{kind: "val"})
			} else {
				out = append(out, lStmt{kind: "key"})
			}
		case k == 3 && !single:
			out = append(out, lStmt{kind: "val"})
		case k == 4:
			out = append(out, lStmt{kind: "let"})
			g.classes["let"] = true
		case k == 5:
			out = append(out, lStmt{kind: "fnlit"})
			g.classes["fn-literal-in-body"] = true
		case k == 6 && depth > 0 && !single && g.r.Chance(1, 3):
			out = append(out, lStmt{kind: "innersep", inner: []int{7, 8, 9}[:g.r.Range(1, 3)]})
			g.classes["inner-loop-assigning-outer-variable"] = true
		case k == 6 && depth > 0:
			sub := &c08Gen{r: g.r, classes: g.classes, vals: []string{"7", "8", "9"}, valSrc: []string{"7", "8", "9"}}
			in := lStmt{kind: "inner", inner: []int{7, 8, 9}[:g.r.Range(0, 3)], body: sub.body(depth-1, 3, single)}
			if single || g.r.Chance(1, 4) {
				in.form = 1
			}
			out = append(out, in)
			g.classes["inner-loop"] = true
			if i > 0 {
				g.classes["inner-loop-after-stmt"] = true
			}
		case k == 7 && depth > 0 && !single:
			out = append(out, lStmt{kind: "ifblk", cond: g.cond(nElems), body: g.body(depth-1, nElems, single)})
			g.classes["if-block"] = true
		case k == 8 && !single && depth > 0:
			sub := &c08Gen{r: g.r, classes: g.classes, vals: g.vals, valSrc: g.valSrc, noKey: g.noKey, noBreak: g.noBreak, noRet: true}
			out = append(out, lStmt{kind: "capblk", body: sub.body(depth-1, nElems, false)})
			g.classes["helper-block"] = true
		case k == 8 && single && depth > 0:
			out = append(out, lStmt{kind: "ifblk", cond: g.cond(nElems), body: g.body(depth-1, nElems, single)})
			g.classes["if-block"] = true
		default:
			st := lStmt{kind: "ctl", cond: g.cond(nElems), act: g.act()}
			if !single {
				st.form = g.r.Intn(3)
				st.text = pick(g.r, []string{"P", "pre ", "!"})
			}
			out = append(out, st)
			g.classes["ctl:"+st.act] = true
			for _, prev := range out[:len(out)-1] {
				if prev.kind == "inner" {
					g.classes["ctl-after-inner-loop"] = true
				}
				if prev.kind == "fnlit" {
					g.classes["ctl-after-fn-literal"] = true
				}
			}
		}
	}
	if single {
		out = append(out, lStmt{kind: "retv", text: pick(g.r, []string{"v", "v", "Z"})})
		if !g.noKey && g.r.Chance(1, 3) {
			out[len(out)-1].text = "k"
		}
	} else if !g.noRet && g.r.Chance(1, 6) {
		out = append(out, lStmt{kind: "retv", text: pick(g.r, []string{"v", "Z"})})
	}
	return out
}

// sliceIter hands out its items one by one; a typed nil among them is an item.
type sliceIter struct {
	items []interface{}
	pos   int
}

func (s *sliceIter) Next() interface{} {
	if s.pos >= len(s.items) {
		return nil
	}
	s.pos++
	return s.items[s.pos-1]
}

type c08Iter struct {
	name   string
	expr   string
	elems  []lElem
	isMap  bool
	vals   []string
	valSrc []string
	err    bool // non-iterable: must be an error
}

func c08Iterables(r *core.Rng) []c08Iter {
	its := []c08Iter{}
	mk := func(name, expr string, vs []string, src []string) c08Iter {
		it := c08Iter{name: name, expr: expr, vals: vs, valSrc: src}
		for i, v := range vs {
			it.elems = append(it.elems, lElem{k: fmt.Sprint(i), v: v, ki: i})
		}
		return it
	}
	for n := 0; n <= 6; n++ {
		vs, src := []string{}, []string{}
		for i := 0; i < n; i++ {
			vs = append(vs, fmt.Sprint((i+1)*10))
			src = append(src, fmt.Sprint((i+1)*10))
		}
		its = append(its, mk(fmt.Sprintf("ints%d", n), fmt.Sprintf("ints%d", n), vs, src))
	}
	ss, ssrc := []string{"a", "b", "c"}, []string{`"a"`, `"b"`, `"c"`}
	its = append(its, mk("strs3", "strs3", ss, ssrc))
	its = append(its, mk("ifaces3", "ifaces3", ss, ssrc))
	its = append(its, mk("arr3", "arr3", []string{"1", "2", "3"}, []string{"1", "2", "3"}))
	its = append(its, mk("pints", "pints", []string{"10", "20"}, []string{"10", "20"}))
	its = append(its, mk("literal", "[4, 5, 6]", []string{"4", "5", "6"}, []string{"4", "5", "6"}))
	its = append(its, mk("range", "range(3, 6)", []string{"3", "4", "5", "6"}, []string{"3", "4", "5", "6"}))
	its = append(its, mk("between", "between(3, 6)", []string{"4", "5"}, []string{"4", "5"}))
	its = append(its, mk("until", "until(3)", []string{"0", "1", "2"}, []string{"0", "1", "2"}))
	its = append(its, mk("until0", "until(0)", nil, nil))
	// an operator expression whose right operand is a call: the { after it opens the loop body
	its = append(its, mk("sum-ending-in-a-call", "ints2 + len(strs3)", []string{"10", "20", "3"}, []string{"10", "20", "3"}))
	its = append(its, mk("index-by-a-call", "msl2[up(\"k\")]", []string{"a", "b"}, []string{`"a"`, `"b"`}))
	// paths that end in a call, after an index, a member, another call: the { after them opens the loop body
	tg, tgs := []string{"t0", "t1"}, []string{`"t0"`, `"t1"`}
	its = append(its, mk("method-call", "strct.Strs()", tg, tgs))
	its = append(its, mk("method-call-after-an-index", "teams[0].Strs()", tg, tgs))
	its = append(its, mk("method-call-after-a-map-index", "tmap[\"k\"].Strs()", tg, tgs))
	its = append(its, mk("method-call-after-index-and-call", "teams[0].Self().Strs()", tg, tgs))
	its = append(its, mk("method-call-after-a-nested-index", "tgrid[0][0].Strs()", tg, tgs))
	its = append(its, mk("member-after-an-index", "teams[0].Tags", tg, tgs))
	its = append(its, mk("custom-iterator", "citer", []string{"1", "2", "3"}, []string{"1", "2", "3"}))
	// an iterator whose elements include a nil slice: an element like any other, not the end
	tn := mk("custom-iterator-yielding-a-nil-slice", "tniter", []string{"ab", "", "c"}, nil)
	tn.vals, tn.valSrc = nil, nil
	its = append(its, tn)
	its = append(its, mk("nil-literal", "nil", nil, nil))
	its = append(its, mk("nil-from-missing-key", "msl[\"nokey\"]", nil, nil))
	its = append(its, mk("nil-slice", "nilslice", nil, nil))
	its = append(its, mk("nil-map", "nilmap", nil, nil))
	its = append(its, mk("nil-pointer-to-slice", "npslice", nil, nil))
	its = append(its, mk("nil-pointer-to-array", "nparr", nil, nil))
	its = append(its, mk("nil-pointer-to-map", "npmap", nil, nil))
	// maps
	m1 := c08Iter{name: "map-string-int", expr: "msi3", isMap: true, vals: []string{"1", "2", "3"}, valSrc: []string{"1", "2", "3"}}
	for i, k := range []string{"x", "y", "z"} {
		m1.elems = append(m1.elems, lElem{k: k, v: fmt.Sprint(i + 1)})
	}
	m2 := c08Iter{name: "map-int-string", expr: "mis2", isMap: true, vals: []string{"one", "two"}, valSrc: []string{`"one"`, `"two"`}}
	m2.elems = []lElem{{k: "1", v: "one"}, {k: "2", v: "two"}}
	m0 := c08Iter{name: "map-empty", expr: "mempty", isMap: true}
	// a key that is not equal to itself is an entry like any other
	m3 := c08Iter{name: "map-float-string-with-NaN-key", expr: "mnan", isMap: true, vals: []string{"x", "y"}, valSrc: []string{`"x"`, `"y"`}}
	m3.elems = []lElem{{k: "NaN", v: "x"}, {k: "1.5", v: "y"}}
	its = append(its, m1, m2, m0, m3)
	for _, e := range []string{"5", `"str"`, "true", "strct", "fnval", "npstrct"} {
		its = append(its, c08Iter{name: "non-iterable:" + e, expr: e, err: true})
	}
	return its
}

func c08Ctx() *plush.Context {
	ctx := plush.NewContext()
	for n := 0; n <= 6; n++ {
		xs := []int{}
		for i := 0; i < n; i++ {
			xs = append(xs, (i+1)*10)
		}
		ctx.Set(fmt.Sprintf("ints%d", n), xs)
	}
	ctx.Set("strs3", []string{"a", "b", "c"})
	ctx.Set("ifaces3", []interface{}{"a", "b", "c"})
	ctx.Set("arr3", [3]int{1, 2, 3})
	ctx.Set("pints", &[]int{10, 20})
	ctx.Set("citer", plush.Iterator(&countIter{max: 3}))
	ctx.Set("tniter", plush.Iterator(&sliceIter{items: []interface{}{[]string{"a", "b"}, []string(nil), []string{"c"}}}))
	ctx.Set("msl", map[string][]string{})
	ctx.Set("msl2", map[string][]string{"K": {"a", "b"}})
	ctx.Set("up", strings.ToUpper)
	ctx.Set("nilslice", []int(nil))
	ctx.Set("nilmap", map[string]int(nil))
	ctx.Set("npslice", (*[]int)(nil))
	ctx.Set("nparr", (*[2]int)(nil))
	ctx.Set("npmap", (*map[string]int)(nil))
	ctx.Set("npstrct", (*T)(nil))
	ctx.Set("mnan", map[float64]string{math.NaN(): "x", 1.5: "y"})
	ctx.Set("msi3", map[string]int{"x": 1, "y": 2, "z": 3})
	ctx.Set("mis2", map[int]string{1: "one", 2: "two"})
	ctx.Set("mempty", map[string]int{})
	ctx.Set("strct", newT("s"))
	ctx.Set("teams", []T{newT("a"), newT("b")})
	ctx.Set("tmap", map[string]T{"k": newT("k")})
	ctx.Set("tgrid", [][]T{{newT("g")}})
	ctx.Set("fnval", func() int { return 1 })
	ctx.Set("cap", func(h plush.HelperContext) (template.HTML, error) {
		s, err := h.Block()
		return template.HTML(s), err
	})
	return ctx
}

// c08StoredBlocks: break / continue in a block that was stored (contentFor) and is replayed
// (contentOf) inside the block of another helper, inside the loop.
func c08StoredBlocks(b *core.B) {
	for _, c := range []struct{ t, want string }{
		{`<%= for (i) in [1, 2, 3] { %><%= cap() { %>xA<% break %>By<% } %>z<% } %>`, "xA"},
		{`<%= for (i) in [1, 2, 3] { %><% contentFor("a") { %>A<% break %>B<% } %><%= cap() { %>x<%= contentOf("a") %>y<% } %>z<% } %>`, "xA"},
		{`<%= for (i) in [1, 2, 3] { %><% contentFor("a") { %>A<% if (i == 2) { continue } %>B<% } %><%= cap() { %>x<%= contentOf("a") %>y<% } %>z<% } %>`, "xAByzxAxAByz"},
		{`<%= for (i) in [1, 2, 3] { %><% contentFor("a") { %>A<%= i %><% if (i == 2) { continue } %>B<% } %>(<%= contentOf("a") %>)<% } %>`, "(A1B)(A2(A3B)"},
		{`<%= for (i) in [1, 2] { %><%= cap() { %><%= cap() { %><%= cap() { %>a<% if (i == 1) { continue } %>b<% } %>c<% } %>d<% } %>e<% } %>`, "aabcde"},
		// the signal belongs to the statement that holds the helper's call, whatever else
		// runs a block before that statement is done (condition of an if, argument of another
		// block helper or of a template function, iterable of an inner loop, second operand)
		{`<%= for (i) in [1,2] { %>a<%= if (cap() { %>b<% continue %>c<% }) { %>k<% let q = 1 %>m<% } %>d<% } %>`, "akmakm"},
		{`<%= for (i) in [1,2] { %>a<%= wrapS(cap() { %>b<% continue %>c<% }) { %>X<% let q = 1 %>Y<% } %>d<% } %>`, "a(b:XY)a(b:XY)"},
		{`<% let f = fn(s) { %>1<% let q = 1 %>2<%= s %>3<% } %><%= for (i) in [1,2] { %>a<%= f(cap() { %>b<% break %>c<% }) %>d<% } %>`, "a12b3"},
		{`<%= for (i) in [1,2] { %>a<%= for (k) in three(cap() { %>b<% continue %>c<% }) { %>k<% let q = 1 %>m<% } %>d<% } %>`, "akmkmkmakmkmkm"},
		{`<%= for (x) in [1,2,3] { %><%= capS() { %>a<% break %>b<% } + capS() { %>p<%= "q" %>r<% } %>|<% } %>`, "apqr"},
		// a block stored inside another helper's block, replayed by the loop body itself
		{`<%= for (x) in [1,2,3] { %><%= cap() { %><% contentFor("a") { %>A<% if (n == 1) { break } %>B<% } %><% } %>[<%= contentOf("a", {n: 1}) %>][<%= contentOf("a", {n: 2}) %>]|<% } %>`, "[A"},
	} {
		if !b.Begin("stored blocks: " + c.t) {
			continue
		}
		ctx := c08Ctx()
		ctx.Set("wrapS", func(s template.HTML, h plush.HelperContext) (template.HTML, error) {
			blk, err := h.Block()
			return template.HTML("(" + string(s) + ":" + blk + ")"), err
		})
		ctx.Set("three", func(s template.HTML) []int { return []int{1, 2, 3} })
		ctx.Set("capS", func(h plush.HelperContext) (string, error) { return h.Block() })
		res := render(b, c.t, ctx)
		b.NonTrivialStr(c.t)
		b.Count("control-in-stored-or-nested-helper-blocks")
		if res.Pan == nil && (res.Err != nil || res.Out != c.want) {
			b.Violate("wrong-loop-output|stored-or-nested-helper-block", fmt.Sprintf("want %q, got %s", c.want, res))
		}
	}
}

// c08NilElements: a nil element is an element: the loop variable is bound to it (and tests as
// falsy), it does not keep the previous element's value or show an outer variable of its name.
func c08NilElements(b *core.B) {
	for _, c := range []struct{ t, want string }{
		{`<%= for (v) in mix { %>[<%= if (v) { %><%= v %><% } else { %>-<% } %>]<% } %>`, "[1][-][3][-]"},
		{`<% let v = "outer" %><%= for (v) in mix { %>[<%= if (v) { %><%= v %><% } else { %>-<% } %>]<% } %>|<%= v %>`, "[1][-][3][-]|outer"},
		{`<%= for (k, v) in mix { %>[<%= k %>:<%= v == nil %>]<% } %>`, "[0:false][1:true][2:false][3:true]"},
		{`<%= for (v) in [nil, 2, nil] { %>[<%= if (v) { %><%= v %><% } else { %>-<% } %>]<% } %>`, "[-][2][-]"},
		{`<%= for (k, v) in mnil { %>[<%= k %>=<%= if (v) { %><%= v %><% } else { %>-<% } %>]<% } %>`, "[a=-]"},
	} {
		if !b.Begin("nil elements: " + c.t) {
			continue
		}
		ctx := c08Ctx()
		ctx.Set("mix", []interface{}{1, nil, 3, nil})
		ctx.Set("mnil", map[string]interface{}{"a": nil})
		res := render(b, c.t, ctx)
		b.NonTrivialStr(c.t)
		b.Count("loops-over-nil-elements")
		if res.Pan == nil && (res.Err != nil || res.Out != c.want) {
			b.Violate("wrong-loop-output|nil-elements", fmt.Sprintf("want %q, got %s", c.want, res))
		}
	}
}

// c08LaterExecutions: a block stored by one execution and replayed by later ones (the context
// outlives a render) behaves in each of them as if it were written there: what an earlier
// replay ran into - a break, a continue - is not left behind for the next one.
func c08LaterExecutions(b *core.B) {
	if !b.Begin("stored blocks over several executions") {
		return
	}
	ctx := c08Ctx()
	var kept plush.HelperContext
	ctx.Set("keep", func(h plush.HelperContext) string { kept = h; return "" })
	ctx.Set("replay", func(n int, h plush.HelperContext) (string, error) {
		c := h.New()
		c.Set("n", n)
		return kept.BlockWith(c)
	})
	steps := []struct{ t, want string }{
		{`<%= for (x) in [1] { %><% keep() { %>A<% if (n == 1) { break } %>B<% } %><% } %>`, ""},
		{`[<%= replay(2) %>]`, "[AB]"},
		{`[<%= replay(1) %>]`, "[A]"},
		{`[<%= replay(2) %>]`, "[AB]"},
		{`[<%= replay(2) %>]<%= if (true) { %>X<% let q = 1 %>Y<% } %>`, "[AB]XY"},
		// outside of any loop the break ends the block and nothing else
		{`[<%= replay(1) %>]|<%= if (true) { %>X<% let q = 1 %>Y<% } %>|<%= replay(1) %>|<%= replay(2) %>`, "[A]|XY|A|AB"},
		{`<%= for (x) in [1,2] { %><%= cap() { %>x<%= replay(2) %>y<% } %>|<% } %>`, "xABy|xABy|"},
		{`<%= for (x) in [2,1,2] { %><%= cap() { %>x<%= replay(x) %>y<% let q = 1 %>z<% } %>|<% } %>[<%= replay(2) %>]`, ""},
	}
	for i, st := range steps {
		res := render(b, st.t, ctx)
		b.Count("executions-sharing-a-stored-block")
		if st.want == "" && i > 0 {
			// what a break in a block replayed by hand (BlockWith of a kept helper context)
			// does to the loop around it is not pinned down here - only that it leaves
			// nothing behind: whole iterations, then the last replay complete
			ok := res.Err == nil && strings.HasSuffix(res.Out, "[AB]")
			for _, it := range strings.Split(strings.TrimSuffix(res.Out, "[AB]"), "|") {
				ok = ok && (it == "" || it == "xAByz" || it == "xAyz" || it == "xA")
			}
			if res.Pan == nil && !ok {
				b.Violate("wrong-loop-output|stored-block-in-a-later-execution", fmt.Sprintf("step %d %s: got %s", i, st.t, res))
				return
			}
			continue
		}
		if res.Pan == nil && (res.Err != nil || res.Out != st.want) {
			b.Violate("wrong-loop-output|stored-block-in-a-later-execution", fmt.Sprintf("step %d %s: want %q, got %s", i, st.t, st.want, res))
			return
		}
	}
	b.NonTrivialStr("stored blocks over several executions")
}

// c08BlockRunSeveralTimes: a helper of the caller's that runs its block once per pass (an
// each-like helper). A break / continue that any pass runs into ends that pass there; the
// helper goes on as it pleases, and when its call is done the loop around it breaks / continues,
// whichever pass it was.
func c08BlockRunSeveralTimes(b *core.B) {
	for n := 1; n <= 3; n++ {
		for X := 1; X <= 3; X++ {
			for P := 0; P < n; P++ {
				for _, act := range []string{"break", "continue"} {
					for _, form := range []string{"tag", "own-tag", "via-cap"} {
						ctl := fmt.Sprintf("<%% if (x == %d && pass == %d) { %s } %%>", X, P, act)
						switch form {
						case "own-tag":
							ctl = fmt.Sprintf("<%% if (x == %d && pass == %d) { %%><%% %s %%><%% } %%>", X, P, act)
						case "via-cap":
							ctl = fmt.Sprintf("<%%= cap() { %%><%% if (x == %d && pass == %d) { %s } %%><%% } %%>", X, P, act)
						}
						src := fmt.Sprintf("<%%= for (x) in [1, 2, 3] { %%><%%= passes(%d) { %%>[<%%= x %%>.<%%= pass %%>%s]<%% } %%>|<%% } %%>", n, ctl)
						if !b.Begin(src) {
							continue
						}
						var want strings.Builder
					loop:
						for x := 1; x <= 3; x++ {
							hit := false
							for pass := 0; pass < n; pass++ {
								fmt.Fprintf(&want, "[%d.%d", x, pass)
								if x == X && pass == P {
									hit = true
									continue
								}
								want.WriteString("]")
							}
							if hit {
								if act == "break" {
									break loop
								}
								continue
							}
							want.WriteString("|")
						}
						ctx := c08Ctx()
						ctx.Set("passes", func(n int, h plush.HelperContext) (template.HTML, error) {
							out := ""
							for pass := 0; pass < n; pass++ {
								c := h.New()
								c.Set("pass", pass)
								s, err := h.BlockWith(c)
								if err != nil {
									return "", err
								}
								out += s
							}
							return template.HTML(out), nil
						})
						res := render(b, src, ctx)
						b.NonTrivialStr(src)
						b.Count("control-in-a-block-run-several-times:" + act + "/" + form)
						if res.Pan == nil && (res.Err != nil || res.Out != want.String()) {
							b.Violate("wrong-loop-output|block-run-several-times|"+act, fmt.Sprintf("%d passes, %s in pass %d of element %d: want %q, got %s", n, act, P, X, want.String(), res))
						}
					}
				}
			}
		}
	}
}

// c08KeptIterators: an iterator kept in a variable hands out each of its elements once,
// over however many loops: a loop that is left by break has taken the elements it has
// visited and no others, the next loop over the same iterator goes on after them.
func c08KeptIterators(b *core.B) {
	type it struct {
		name, mk string
		elems    []int
	}
	its := []it{{"range", "range(1, 5)", []int{1, 2, 3, 4, 5}}, {"between", "between(0, 6)", []int{1, 2, 3, 4, 5}}, {"until", "until(5)", []int{0, 1, 2, 3, 4}}, {"custom", "fresh()", []int{1, 2, 3, 4, 5}}}
	for _, i := range its {
		for k := 0; k < len(i.elems); k++ {
			for _, form := range []string{"two-loops", "inner-loop-over-the-same", "three-loops"} {
				at := i.elems[k]
				var src string
				var want strings.Builder
				switch form {
				case "two-loops":
					src = fmt.Sprintf("<%% let r = %s %%><%%= for (x) in r { %%><%%= x %%><%% if (x == %d) { break } %%><%% } %%>|<%%= for (x) in r { %%><%%= x %%><%% } %%>", i.mk, at)
					for j, e := range i.elems {
						fmt.Fprint(&want, e)
						if j == k {
							want.WriteString("|")
						}
					}
					if k == len(i.elems)-1 && !strings.HasSuffix(want.String(), "|") {
						want.WriteString("|")
					}
				case "three-loops":
					src = fmt.Sprintf("<%% let r = %s %%><%%= for (x) in r { %%><%%= x %%><%% break %%><%% } %%>|<%%= for (x) in r { %%><%%= x %%><%% if (x == %d) { break } %%><%% } %%>|<%%= for (x) in r { %%><%%= x %%><%% } %%>", i.mk, at)
					if k == 0 {
						continue
					}
					for j, e := range i.elems {
						fmt.Fprint(&want, e)
						if j == 0 || j == k {
							want.WriteString("|")
						}
					}
				default:
					// the body takes one more element from the iterator it is looping over
					src = fmt.Sprintf("<%% let r = %s %%><%%= for (x) in r { %%>[<%%= x %%><%%= for (y) in r { %%>,<%%= y %%><%% break %%><%% } %%>]<%% } %%>", i.mk)
					if k > 0 {
						continue
					}
					for j := 0; j < len(i.elems); j += 2 {
						fmt.Fprintf(&want, "[%d", i.elems[j])
						if j+1 < len(i.elems) {
							fmt.Fprintf(&want, ",%d", i.elems[j+1])
						}
						want.WriteString("]")
					}
				}
				if !b.Begin(src) {
					continue
				}
				ctx := c08Ctx()
				ctx.Set("fresh", func() plush.Iterator { return &countIter{max: 5} })
				res := render(b, src, ctx)
				b.NonTrivialStr(src)
				b.Count("iterator-kept-in-a-variable:" + i.name + "/" + form)
				if res.Pan == nil && (res.Err != nil || res.Out != want.String()) {
					b.Violate("wrong-loop-output|iterator-kept-in-a-variable|"+form, fmt.Sprintf("want %q, got %s", want.String(), res))
				}
			}
		}
	}
}

// c08OtherData: what a loop visits is what its iterable is worth in *this* execution. One
// parsed template (and, with the cache on, one text) is executed with four sets of data in
// turn; the iterables are written with literals that mention variables at every depth.
func c08OtherData(b *core.B) {
	type ds struct {
		a, bb string
		n     int
		xs    []string
	}
	data := []ds{{"p", "q", 2, []string{"x1"}}, {"r", "s", 0, nil}, {"t", "u", 3, []string{"y1", "y2", "y3"}}, {"p", "q", 1, []string{}}}
	join := func(xs ...string) string {
		o := ""
		for i, x := range xs {
			o += fmt.Sprintf("%d=%s;", i, x)
		}
		return o
	}
	nums := func(from, to int) []string {
		var o []string
		for i := from; i <= to; i++ {
			o = append(o, fmt.Sprint(i))
		}
		return o
	}
	forms := []struct {
		name, iter, elem string
		want             func(d ds) string
	}{
		{"array-of-variables", `[a, b]`, `e`, func(d ds) string { return join(d.a, d.bb) }},
		{"array-of-hashes-of-variables", `[{"n": a}, {"n": b}]`, `e["n"]`, func(d ds) string { return join(d.a, d.bb) }},
		{"array-of-arrays-of-variables", `[[a], ["c", b]]`, `e[len(e) - 1]`, func(d ds) string { return join(d.a, d.bb) }},
		{"array-of-constants-and-a-sum", `["c", a + "!"]`, `e`, func(d ds) string { return join("c", d.a+"!") }},
		{"array-of-calls", `[up(a), "c"]`, `e`, func(d ds) string { return join(strings.ToUpper(d.a), "c") }},
		{"array-of-constants", `["c", "d"]`, `e`, func(d ds) string { return join("c", "d") }},
		{"array-of-hashes-of-constants", `[{"n": "c"}, {"n": 1}]`, `e["n"]`, func(d ds) string { return join("c", "1") }},
		{"hash-of-a-variable", `{"k": a}`, `e`, func(d ds) string { return "k=" + d.a + ";" }},
		{"variable", `xs`, `e`, func(d ds) string { return join(d.xs...) }},
		{"variable-plus-variable", `xs + b`, `e`, func(d ds) string { return join(append(append([]string{}, d.xs...), d.bb)...) }},
		{"until-variable", `until(n)`, `e`, func(d ds) string { return join(nums(0, d.n-1)...) }},
		{"range-to-variable", `range(1, n)`, `e`, func(d ds) string { return join(nums(1, d.n)...) }},
		{"member-of-a-variable", `h.Tags`, `e`, func(d ds) string { return join(d.a+"0", d.a+"1") }},
		{"index-by-a-variable", `grid[n]`, `e`, func(d ds) string { return join(fmt.Sprint("g", d.n)) }},
	}
	mkCtx := func(d ds) *plush.Context {
		ctx := c08Ctx()
		ctx.Set("a", d.a)
		ctx.Set("b", d.bb)
		ctx.Set("n", d.n)
		ctx.Set("xs", d.xs)
		hh := newT(d.a)
		hh.Tags = []string{d.a + "0", d.a + "1"}
		ctx.Set("h", hh)
		ctx.Set("grid", [][]string{{"g0"}, {"g1"}, {"g2"}, {"g3"}})
		return ctx
	}
	for _, f := range forms {
		for _, where := range []string{"top", "in-if", "in-fn", "in-loop"} {
			loop := "<%= for (i, e) in " + f.iter + " { %><%= i %>=<%= " + f.elem + " %>;<% } %>"
			src := loop
			switch where {
			case "in-if":
				src = "<%= if (true) { %>" + loop + "<% } %>"
			case "in-fn":
				src = "<% let f = fn() { %>" + loop + "<% } %><%= f() %>"
			case "in-loop":
				src = "<%= for (z) in [1] { %>" + loop + "<% } %>"
			}
			if !b.Begin(src) {
				continue
			}
			for _, mode := range []string{"one-template", "cache"} {
				var t *plush.Template
				if mode == "one-template" {
					var err error
					if t, err = plush.NewTemplate(src); err != nil {
						b.Violate("loop-rejected|other-data|"+f.name, err.Error())
						break
					}
				}
				bad := false
				for k, d := range data {
					var o R
					ctx := mkCtx(d)
					o.Pan = core.Guard(func() {
						if t != nil {
							o.Out, o.Err = t.Exec(ctx)
							return
						}
						plush.CacheEnabled = true
						defer func() { plush.CacheEnabled = false }()
						o.Out, o.Err = plush.Render(src, ctx)
					})
					b.Count("other-data:" + mode)
					if o.Pan != nil {
						b.Violate(o.Pan.Sig(), o.Pan.Value)
						bad = true
						break
					}
					want := f.want(d)
					if o.Err != nil || o.Out != want {
						b.ViolateIn("wrong-loop-output|later-execution-with-other-data|"+f.name, src, fmt.Sprintf("%s, execution %d (a=%q b=%q n=%d xs=%q): want %q, got %s", mode, k+1, d.a, d.bb, d.n, d.xs, want, o))
						bad = true
						break
					}
				}
				if bad {
					break
				}
			}
			b.Count("other-data-form:" + f.name + "/" + where)
			b.NonTrivialStr(src)
		}
	}
}

func c08Run(b *core.B) {
	if b.Batch == 0 {
		c08StoredBlocks(b)
		c08LaterExecutions(b)
		c08NilElements(b)
		c08OtherData(b)
		c08BlockRunSeveralTimes(b)
		c08KeptIterators(b)
	}
	r := b.Rng(1)
	n := 120000
	if b.Tier == core.Thorough {
		n = 8000000
	}
	its := c08Iterables(r)
	for i := 0; i < n/b.NBatches; i++ {
		it := its[r.Intn(len(its))]
		single := r.Chance(1, 3)
		g := &c08Gen{r: r, classes: map[string]bool{}, vals: it.vals, valSrc: it.valSrc}
		keyed := r.Bool()
		g.noKey = !keyed || it.isMap
		g.noBreak = it.isMap
		body := g.body(2, len(it.elems), single)
		mapBreak := false
		if it.isMap && r.Chance(1, 3) {
			// break in a map loop: visiting order is unspecified, but an
			// unconditional break after order-independent statements must end
			// the loop after exactly one iteration
			mapBreak = true
			pre := []lStmt{}
			for j := r.Range(0, 2); j > 0; j-- {
				switch r.Intn(3) {
				case 0:
					if !single {
						pre = append(pre, lStmt{kind: "text", text: pick(r, []string{"a", "b."})})
					}
				case 1:
					pre = append(pre, lStmt{kind: "let"})
				default:
					pre = append(pre, lStmt{kind: "fnlit"})
				}
			}
			brk := lStmt{kind: "ctl", cond: lCond{kind: "true"}, act: "break", text: "P"}
			if !single {
				brk.form = r.Intn(3)
			}
			body = append(append(pre, brk), body...)
			g.classes["break-in-map-loop"] = true
		}
		head := "v0"
		if keyed {
			head = "k0, v0"
		}
		var tmpl string
		if single {
			tmpl = fmt.Sprintf("<%%= for (%s) in %s {\n%s} %%>", head, it.expr, printSingle(body, 0))
		} else if it.isMap {
			tmpl = fmt.Sprintf("<%%= for (%s) in %s { %%>⟦%s⟧<%% } %%>", head, it.expr, printMulti(body, 0))
		} else {
			tmpl = fmt.Sprintf("<%%= for (%s) in %s { %%>%s<%% } %%>", head, it.expr, printMulti(body, 0))
		}
		if !b.Begin(tmpl) {
			continue
		}
		res := render(b, tmpl, c08Ctx())
		b.Count("iterable:" + it.name)
		for c := range g.classes {
			b.Count("body:" + c)
		}
		b.Count(map[bool]string{true: "layout:single-tag", false: "layout:multi-tag"}[single])
		b.NonTrivialStr(tmpl)
		if res.Pan != nil {
			continue
		}
		cls := c08Class(g)
		if it.err {
			if res.Err == nil {
				b.Violate("non-iterable-accepted|"+it.name, fmt.Sprintf("iterating over %s must be an error; got %q", it.expr, res.Out))
			}
			continue
		}
		if res.Err != nil {
			b.Violate("loop-rejected|"+cls+"|"+core.ErrClass(res.Err), fmt.Sprintf("the loop is well-formed; got error %v", res.Err))
			continue
		}
		// reference
		if it.isMap && mapBreak {
			want := ""
			if len(it.elems) > 0 {
				o, _ := loopBody(body, it.elems[0], false)
				want = o
				if !single {
					want = "⟦" + o
				}
			}
			if res.Out != want {
				b.Violate("wrong-map-iterations|break-in-map-loop", fmt.Sprintf("an unconditional break must end the loop after one iteration: want %q, got %q", want, res.Out))
			}
			continue
		}
		if it.isMap {
			want := []string{}
			for _, e := range it.elems {
				o, _ := loopBody(body, e, false)
				if single {
					want = append(want, o)
				} else {
					want = append(want, "⟦"+o)
				}
			}
			var got []string
			if single {
				// single-tag map bodies emit only through return: compare as a multiset of characters is too weak; rebuild by greedy match
				got = matchMultiset(res.Out, want)
			} else {
				for _, p := range strings.Split(res.Out, "⟦")[1:] {
					got = append(got, "⟦"+strings.TrimSuffix(p, "⟧"))
				}
				for j := range want {
					want[j] = strings.TrimSuffix(want[j], "⟧")
				}
			}
			sort.Strings(got)
			sort.Strings(want)
			if strings.Join(got, "\x00") != strings.Join(want, "\x00") {
				b.Violate("wrong-map-iterations|"+cls, fmt.Sprintf("want (as a multiset) %q, got %q from output %q", want, got, res.Out))
			}
			continue
		}
		var want strings.Builder
		for _, e := range it.elems {
			o, s := loopBody(body, e, false)
			want.WriteString(o)
			if s == sigBreak {
				break
			}
		}
		if res.Out != want.String() {
			b.Violate("wrong-loop-output|"+cls, fmt.Sprintf("want %q\n got %q", want.String(), res.Out))
		}
		if i < 2 {
			b.Sample(map[string]any{"template": tmpl, "expected": want.String(), "got": res.Out})
		}

		// engine-vs-engine unrolling for control-free multi-tag bodies
		if !single && c08ControlFree(body) && len(it.elems) > 0 && strings.HasPrefix(it.name, "ints") && keyed {
			var un strings.Builder
			ok := true
			for _, e := range it.elems {
				t := fmt.Sprintf("<%% let k0 = %s %%><%% let v0 = %s %%>%s", e.k, e.v, printMulti(body, 0))
				rr := renderQuiet(t, c08Ctx())
				if !rr.OK() {
					ok = false
					break
				}
				un.WriteString(rr.Out)
			}
			if ok {
				b.Count("unrolling-compared")
				if un.String() != res.Out {
					b.Violate("unrolling-differs|"+cls, fmt.Sprintf("loop %q, unrolled %q", res.Out, un.String()))
				}
			}
		}
	}
}

// matchMultiset splits out into the given pieces in some order, if possible.
func matchMultiset(out string, want []string) []string {
	used := make([]bool, len(want))
	var got []string
	var rec func(rest string) bool
	rec = func(rest string) bool {
		if rest == "" {
			for _, u := range used {
				if !u {
					return false
				}
			}
			return true
		}
		for i, w := range want {
			if !used[i] && w != "" && strings.HasPrefix(rest, w) {
				used[i] = true
				got = append(got, w)
				if rec(rest[len(w):]) {
					return true
				}
				got = got[:len(got)-1]
				used[i] = false
			}
		}
		return false
	}
	// empty pieces match trivially
	for i, w := range want {
		if w == "" {
			used[i] = true
			got = append(got, "")
		}
	}
	if rec(out) {
		return got
	}
	return []string{"<unsplittable>" + out}
}

func c08ControlFree(body []lStmt) bool {
	for _, st := range body {
		switch st.kind {
		case "ctl", "retv":
			return false
		case "innersep":
			return false // the unrolled form would re-declare the separator per element: compare with the reference only
		case "inner", "ifblk", "capblk":
			if !c08ControlFree(st.body) {
				return false
			}
		}
	}
	return true
}

func c08Class(g *c08Gen) string {
	switch {
	case g.classes["helper-block"]:
		return "with-helper-block"
	case g.classes["ctl-after-inner-loop"]:
		return "control-after-inner-loop"
	case g.classes["ctl-after-fn-literal"]:
		return "control-after-fn-literal"
	case g.classes["inner-loop"]:
		return "with-inner-loop"
	case g.classes["ctl:break"] || g.classes["ctl:continue"] || g.classes["ctl:return"]:
		return "with-control"
	}
	return "plain"
}

func init() {
	core.Register(&core.Prop{
		ID:      "C08",
		Level:   "exploration",
		Rule:    "random loops: iterable from {[]int len 0-6, []string, []interface{}, array, *[]int, array literal, range/between/until, custom Iterator, nil, nil slice, nil map, nil pointers to slice / array / map, map[string]int, map[int]string, map[float64]string with a NaN key, empty map, 6 non-iterables incl. a nil pointer to a struct} x (key,value)/(value) heads x bodies from a statement grammar (text, key, value, let, fn literal, if-guarded break/continue/return in 3 tag forms at any position, if blocks, blocks of a block helper with break/continue inside, inner loops in output/silent form with their own control statements, trailing return), printed multi-tag or single-tag; nesting depth <= 2. Oracle: a reference loop interpreter (one body evaluation per element in order; continue/break/return keep what the iteration produced); maps compared as multisets of bracketed iterations; control-free bodies additionally compared with the same body rendered element by element (unrolling). Non-trivial = every generated loop (distinct by template hash).",
		Assume:  []string{"map bodies contain no break (visiting order is unspecified)", "text inside silent if blocks before a control statement is not generated (unspecified whether it is kept)"},
		Batches: batchesQT(16, 64),
		Run:     c08Run,
	})
}
