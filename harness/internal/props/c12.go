package props

import (
	"errors"
	"fmt"
	"html/template"
	"reflect"
	"sort"
	"strings"

	"github.com/gobuffalo/plush/v5"
	"github.com/gobuffalo/plush/v5/helpers/hctx"
	"github.com/gobuffalo/plush/v5/helpers/helptest"

	"verifharness/internal/core"
)

// C12 — Go helpers receive exactly the supplied arguments, in order, or are not called.

var (
	c12TString = reflect.TypeOf("")
	c12TInt    = reflect.TypeOf(0)
	c12TBool   = reflect.TypeOf(true)
	c12TIface  = reflect.TypeOf((*interface{})(nil)).Elem()
	c12TPtr    = reflect.TypeOf(&T{})
	c12TInts   = reflect.TypeOf([]int{})
	c12TFloat  = reflect.TypeOf(2.5)
	c12TMap    = reflect.TypeOf(map[string]interface{}{})
	c12THMap   = reflect.TypeOf(hctx.Map{})
	c12THC     = reflect.TypeOf(plush.HelperContext{})
	c12THCI    = reflect.TypeOf((*hctx.HelperContext)(nil)).Elem()
	c12TErr    = reflect.TypeOf((*error)(nil)).Elem()
)

var c12ParamTypes = []reflect.Type{c12TString, c12TInt, c12TBool, c12TIface, c12TPtr, c12TInts, c12TFloat}

type c12Sig struct {
	fixed    []reflect.Type
	mapT     reflect.Type // nil: none
	ctxT     reflect.Type // nil: none
	variadic reflect.Type // element type; nil: none
	result   int          // 0 (), 1 (T), 2 (T, nil), 3 (T, err), 4 (error nil), 5 (error non-nil)
}

func (s c12Sig) String() string {
	ps := []string{}
	for _, t := range s.fixed {
		ps = append(ps, t.String())
	}
	if s.mapT != nil {
		ps = append(ps, s.mapT.String())
	}
	if s.ctxT != nil {
		ps = append(ps, s.ctxT.String())
	}
	if s.variadic != nil {
		ps = append(ps, "..."+s.variadic.String())
	}
	return "func(" + strings.Join(ps, ", ") + ") " + []string{"()", "(string)", "(string, error=nil)", "(string, error!=nil)", "(error=nil)", "(error!=nil)", "(string, *errT=nil)", "(string, *errT!=nil)"}[s.result]
}

func (s c12Sig) params() []reflect.Type {
	ps := append([]reflect.Type{}, s.fixed...)
	if s.mapT != nil {
		ps = append(ps, s.mapT)
	}
	if s.ctxT != nil {
		ps = append(ps, s.ctxT)
	}
	if s.variadic != nil {
		ps = append(ps, reflect.SliceOf(s.variadic))
	}
	return ps
}

type c12Env struct {
	calls    int
	received string
	trace    []string
	sentinel error
	tp       *T
}

// describe prints a received (or predicted) argument in a pointer-free way.
func (e *c12Env) describe(v reflect.Value) string {
	if !v.IsValid() {
		return "<invalid>"
	}
	t := v.Type()
	switch {
	case t == c12THC:
		hc := v.Interface().(plush.HelperContext)
		if hc.Context == nil {
			return "HC(zero)"
		}
		blk := ""
		if hc.HasBlock() {
			s, err := hc.Block()
			blk = fmt.Sprintf("%q,%v", s, err)
		}
		return fmt.Sprintf("HC(hasBlock=%v block=%s)", hc.HasBlock(), blk)
	case t == c12THCI:
		if v.IsNil() {
			return "HCI(nil)"
		}
		hc := v.Interface().(hctx.HelperContext)
		blk := ""
		if hc.HasBlock() {
			s, err := hc.Block()
			blk = fmt.Sprintf("%q,%v", s, err)
		}
		return fmt.Sprintf("HCI(hasBlock=%v block=%s)", hc.HasBlock(), blk)
	case t == c12TPtr:
		p := v.Interface().(*T)
		switch {
		case p == nil:
			return "*T(nil)"
		case p == e.tp:
			return "*T(the-fixture-pointer)"
		}
		return "*T(other)"
	case t.Kind() == reflect.Map:
		keys := []string{}
		for _, k := range v.MapKeys() {
			keys = append(keys, fmt.Sprintf("%v:%s", k.Interface(), e.describe(v.MapIndex(k))))
		}
		sort.Strings(keys)
		nilness := ""
		if v.IsNil() {
			nilness = "nil-"
		}
		return nilness + t.String() + "{" + strings.Join(keys, ",") + "}"
	case t.Kind() == reflect.Interface:
		if v.IsNil() {
			return "iface(nil)"
		}
		return "iface(" + e.describe(v.Elem()) + ")"
	case t.Kind() == reflect.Slice:
		if v.IsNil() {
			return t.String() + "(nil)"
		}
		el := []string{}
		for i := 0; i < v.Len(); i++ {
			el = append(el, e.describe(v.Index(i)))
		}
		return t.String() + "[" + strings.Join(el, ",") + "]"
	}
	return fmt.Sprintf("%s(%v)", t.String(), v.Interface())
}

func (e *c12Env) makeFunc(s c12Sig) interface{} {
	outs := []reflect.Type{}
	switch s.result {
	case 1:
		outs = []reflect.Type{c12TString}
	case 2, 3:
		outs = []reflect.Type{c12TString, c12TErr}
	case 4, 5:
		outs = []reflect.Type{c12TErr}
	case 6, 7:
		// the error result is declared as a concrete pointer type: nil is no error
		outs = []reflect.Type{c12TString, reflect.TypeOf((*c12PtrErr)(nil))}
	}
	ft := reflect.FuncOf(s.params(), outs, s.variadic != nil)
	fn := reflect.MakeFunc(ft, func(in []reflect.Value) []reflect.Value {
		e.calls++
		parts := []string{}
		for i, v := range in {
			if s.variadic != nil && i == len(in)-1 && v.Len() == 0 {
				// whether an empty variadic tail is nil or empty is not specified
				v = reflect.MakeSlice(v.Type(), 0, 0)
			}
			parts = append(parts, e.describe(v))
		}
		e.received = strings.Join(parts, " | ")
		// helpers may keep and modify the maps they are given (Truncate used
		// to): write into every map received, so that a map shared between
		// calls shows up as unsupplied keys in a later call
		for _, v := range in {
			if v.Kind() == reflect.Map && !v.IsNil() && v.Type().Key().Kind() == reflect.String && v.Type().Elem().Kind() == reflect.Interface {
				v.SetMapIndex(reflect.ValueOf("_written_by_a_previous_call"), reflect.ValueOf(true))
			}
		}
		errV := reflect.Zero(c12TErr)
		if s.result == 3 || s.result == 5 {
			errV = reflect.ValueOf(&e.sentinel).Elem()
		}
		switch s.result {
		case 1:
			return []reflect.Value{reflect.ValueOf("RET")}
		case 6:
			return []reflect.Value{reflect.ValueOf("RET"), reflect.ValueOf((*c12PtrErr)(nil))}
		case 7:
			return []reflect.Value{reflect.ValueOf("RET"), reflect.ValueOf(&c12PtrErr{e.sentinel})}
		case 2, 3:
			return []reflect.Value{reflect.ValueOf("RET"), errV}
		case 4, 5:
			return []reflect.Value{errV}
		}
		return nil
	})
	return fn.Interface()
}

// c12PtrErr is an error type used through its pointer.
type c12PtrErr struct{ err error }

func (e *c12PtrErr) Error() string { return "ptr-err: " + e.err.Error() }
func (e *c12PtrErr) Unwrap() error { return e.err }

type c12Arg struct {
	name string
	src  string
	val  func(e *c12Env) interface{}
	id   string // recorded through val()
}

func c12Args(e *c12Env) []c12Arg {
	return []c12Arg{
		{name: "string", src: `"s"`, val: func(*c12Env) interface{} { return "s" }},
		{name: "int", src: "7", val: func(*c12Env) interface{} { return 7 }},
		{name: "nil", src: "nil", val: func(*c12Env) interface{} { return nil }},
		{name: "hash", src: `{k: 1, j: "x"}`, val: func(*c12Env) interface{} { return map[string]interface{}{"k": 1, "j": "x"} }},
		{name: "ptr", src: "tp", val: func(e *c12Env) interface{} { return e.tp }},
		{name: "bool", src: "true", val: func(*c12Env) interface{} { return true }},
		{name: "recorded-int", src: `val("ID", 5)`, val: func(*c12Env) interface{} { return 5 }, id: "x"},
		{name: "ints", src: "ints", val: func(*c12Env) interface{} { return []int{1, 2} }},
		{name: "float", src: "2.5", val: func(*c12Env) interface{} { return 2.5 }},
		// typed nils from the context are values like any other: passed on unchanged, or not assignable
		{name: "typed-nil-pointer", src: "ntp", val: func(*c12Env) interface{} { return (*T)(nil) }},
		{name: "nil-strings", src: "nstrs", val: func(*c12Env) interface{} { return []string(nil) }},
	}
}

type c12Pred struct {
	status   string // ok, reject, unspecified
	received string
}

// c12Bind is the reference binder from the property text.
func c12Bind(e *c12Env, s c12Sig, args []c12Arg, hasBlock bool) c12Pred {
	params := s.params()
	vals := make([]interface{}, len(args))
	for i, a := range args {
		vals[i] = a.val(e)
	}
	conv := func(v interface{}, t reflect.Type) (reflect.Value, bool) {
		if v == nil {
			return reflect.Zero(t), true
		}
		rv := reflect.ValueOf(v)
		if !rv.Type().AssignableTo(t) {
			return rv, false
		}
		out := reflect.New(t).Elem()
		out.Set(rv)
		return out, true
	}
	blockDesc := ""
	if hasBlock {
		blockDesc = fmt.Sprintf("%q,%v", "BLK", nil)
	}
	parts := []string{}
	if s.variadic == nil {
		N := len(params)
		if len(args) > N {
			return c12Pred{status: "reject"}
		}
		for i := range args {
			rv, ok := conv(vals[i], params[i])
			if !ok {
				return c12Pred{status: "reject"}
			}
			parts = append(parts, e.describe(rv))
		}
		missing := params[len(args):]
		switch len(missing) {
		case 0:
		case 1, 2:
			// only an omitted trailing options map and/or helper context is supplied automatically
			for _, m := range missing {
				switch m {
				case c12TMap, c12THMap:
					parts = append(parts, m.String()+"{}")
				case c12THC:
					parts = append(parts, fmt.Sprintf("HC(hasBlock=%v block=%s)", hasBlock, blockDesc))
				case c12THCI:
					parts = append(parts, fmt.Sprintf("HCI(hasBlock=%v block=%s)", hasBlock, blockDesc))
				default:
					return c12Pred{status: "unspecified"}
				}
			}
		default:
			return c12Pred{status: "unspecified"}
		}
		return c12Pred{status: "ok", received: strings.Join(parts, " | ")}
	}
	nf := len(params) - 1
	if len(args) < nf {
		return c12Pred{status: "unspecified"}
	}
	for i := 0; i < nf; i++ {
		rv, ok := conv(vals[i], params[i])
		if !ok {
			return c12Pred{status: "reject"}
		}
		parts = append(parts, e.describe(rv))
	}
	tail := reflect.MakeSlice(reflect.SliceOf(s.variadic), 0, 4)
	for i := nf; i < len(args); i++ {
		rv, ok := conv(vals[i], s.variadic)
		if !ok {
			return c12Pred{status: "reject"}
		}
		tail = reflect.Append(tail, rv)
	}
	parts = append(parts, e.describe(tail))
	return c12Pred{status: "ok", received: strings.Join(parts, " | ")}
}

func c12Sigs(maxFixed int) []c12Sig {
	var fixedTuples [][]reflect.Type
	var rec func(cur []reflect.Type)
	rec = func(cur []reflect.Type) {
		fixedTuples = append(fixedTuples, append([]reflect.Type{}, cur...))
		if len(cur) == maxFixed {
			return
		}
		for _, t := range c12ParamTypes {
			rec(append(cur, t))
		}
	}
	rec(nil)
	var sigs []c12Sig
	for _, ft := range fixedTuples {
		for _, m := range []reflect.Type{nil, c12TMap, c12THMap} {
			for _, c := range []reflect.Type{nil, c12THC, c12THCI} {
				for res := 0; res < 8; res++ {
					sigs = append(sigs, c12Sig{fixed: ft, mapT: m, ctxT: c, result: res})
				}
			}
		}
		for _, v := range []reflect.Type{c12TString, c12TInt, c12TIface, c12TFloat} {
			for res := 0; res < 8; res++ {
				sigs = append(sigs, c12Sig{fixed: ft, variadic: v, result: res})
			}
		}
	}
	return sigs
}

// c12Rcv is a receiver whose methods record what they get; the method
// signatures mirror entries of the signature family.
type c12Rcv struct{ env *c12Env }

func (r c12Rcv) rec(vals ...interface{}) string {
	r.env.calls++
	parts := []string{}
	for _, v := range vals {
		rv := reflect.ValueOf(v)
		if !rv.IsValid() {
			parts = append(parts, "iface(nil)")
			continue
		}
		parts = append(parts, r.env.describe(rv))
	}
	r.env.received = strings.Join(parts, " | ")
	return "RET"
}
func (r c12Rcv) M0() string                                   { return r.rec() }
func (r c12Rcv) M1(s string) string                           { return r.rec(s) }
func (r c12Rcv) M2(s string, i int) string                    { return r.rec(s, i) }
func (r c12Rcv) MP(p *T) string                               { return r.rec(p) }
func (r *c12Rcv) PM1(i int) string                            { return r.rec(i) }
func (r c12Rcv) MM(s string, m map[string]interface{}) string { return r.rec(s, m) }
func (r c12Rcv) MH(b bool, h plush.HelperContext) string      { return r.rec(b, h) }
func (r c12Rcv) MV(i int, xs ...string) string {
	if len(xs) == 0 {
		xs = []string{}
	}
	return r.rec(i, xs)
}

var c12Methods = map[string]c12Sig{
	"M0":  {result: 1},
	"M1":  {fixed: []reflect.Type{c12TString}, result: 1},
	"M2":  {fixed: []reflect.Type{c12TString, c12TInt}, result: 1},
	"MP":  {fixed: []reflect.Type{c12TPtr}, result: 1},
	"PM1": {fixed: []reflect.Type{c12TInt}, result: 1},
	"MM":  {fixed: []reflect.Type{c12TString}, mapT: c12TMap, result: 1},
	"MH":  {fixed: []reflect.Type{c12TBool}, ctxT: c12THC, result: 1},
	"MV":  {fixed: []reflect.Type{c12TInt}, variadic: c12TString, result: 1},
}

func c12One(b *core.B, s c12Sig, argIdx []int, hasBlock bool) { c12Call(b, s, argIdx, hasBlock, "") }

var c12ForcePrefix string

func c12CallOn(b *core.B, s c12Sig, argIdx []int, hasBlock bool, method, prefix string) {
	c12ForcePrefix = prefix
	defer func() { c12ForcePrefix = "" }()
	c12Call(b, s, argIdx, hasBlock, method)
}

// c12Call judges one call; with method != "" the callee is rcv.<method>.
func c12Call(b *core.B, s c12Sig, argIdx []int, hasBlock bool, method string) {
	env := &c12Env{sentinel: errors.New("C12-SENTINEL"), tp: &T{Name: "fixture"}}
	pool := c12Args(env)
	args := make([]c12Arg, len(argIdx))
	srcs := make([]string, len(argIdx))
	wantTrace := []string{}
	for i, ai := range argIdx {
		args[i] = pool[ai]
		srcs[i] = pool[ai].src
		if pool[ai].id != "" {
			id := fmt.Sprintf("a%d", i)
			srcs[i] = strings.Replace(srcs[i], "ID", id, 1)
			wantTrace = append(wantTrace, id)
		}
	}
	callee := "helperUnderTest"
	if method != "" {
		prefix := []string{"rcv.", "prcv.", "hold.R."}[int(b.Ordinal()+int64(len(argIdx)))%3]
		if c12ForcePrefix != "" {
			prefix = c12ForcePrefix
		}
		callee = prefix + method
	}
	tmpl := "[<%= " + callee + "(" + strings.Join(srcs, ", ") + ")"
	if hasBlock {
		tmpl += " { %>BLK<% }"
	}
	tmpl += " %>]"
	if !b.Begin(s.String() + "  ⇐  " + tmpl) {
		return
	}
	ctx := plush.NewContext()
	if method == "" {
		ctx.Set("helperUnderTest", env.makeFunc(s))
	} else {
		ctx.Set("rcv", c12Rcv{env})
		ctx.Set("prcv", &c12Rcv{env})
		ctx.Set("hold", struct{ R c12Rcv }{c12Rcv{env}})
	}
	ctx.Set("tp", env.tp)
	ctx.Set("ints", []int{1, 2})
	ctx.Set("ntp", (*T)(nil))
	ctx.Set("nstrs", []string(nil))
	ctx.Set("val", func(id string, v interface{}) interface{} {
		env.trace = append(env.trace, id)
		return v
	})
	res := render(b, tmpl, ctx)
	pred := c12Bind(env, s, args, hasBlock)
	b.Count("predicted:" + pred.status)
	if res.Pan != nil {
		return
	}
	if pred.status == "unspecified" {
		b.Abstain()
		return
	}
	b.NonTrivialStr(s.String(), tmpl)
	cls := c12Class(s, args)
	if method != "" {
		cls = "method:" + cls
	}
	if pred.status == "reject" {
		switch {
		case env.calls > 0:
			b.Violate("invoked-although-rejected|"+cls, fmt.Sprintf("the call must be rejected; the helper was invoked %d time(s) with: %s", env.calls, env.received))
		case res.Err == nil:
			b.Violate("rejection-not-reported|"+cls, fmt.Sprintf("the call must be rejected; Render returned %q without error", res.Out))
		case method == "" && !strings.Contains(res.Err.Error(), "helperUnderTest"), method != "" && !strings.Contains(res.Err.Error(), method):
			b.Violate("rejection-does-not-name-the-call|"+cls, fmt.Sprintf("error: %v", res.Err))
		}
		return
	}
	// accepted call
	if env.calls != 1 {
		if res.Err != nil {
			b.Violate("valid-call-rejected|"+cls+"|"+core.ErrClass(res.Err), fmt.Sprintf("predicted arguments: %s; engine error: %v", pred.received, res.Err))
		} else {
			b.Violate("helper-invocations|"+cls, fmt.Sprintf("helper invoked %d times, want 1", env.calls))
		}
		return
	}
	if env.received != pred.received {
		b.Violate("wrong-arguments|"+cls, fmt.Sprintf("predicted: %s\n received: %s", pred.received, env.received))
		return
	}
	if strings.Join(env.trace, ",") != strings.Join(wantTrace, ",") {
		b.Violate("argument-evaluation|"+cls, fmt.Sprintf("want each argument evaluated once in order %v, got %v", wantTrace, env.trace))
		return
	}
	switch s.result {
	case 3, 5, 7:
		if res.Err == nil || !errors.Is(res.Err, env.sentinel) || res.Out != "" {
			b.Violate("error-result-not-propagated|"+cls, fmt.Sprintf("the helper returned a non-nil error; Render gave %s", res))
		}
	case 1, 2, 6:
		if res.Err != nil || res.Out != "[RET]" {
			b.Violate("first-result-not-the-value|"+cls, fmt.Sprintf("want [RET], got %s", res))
		}
	default:
		if res.Err != nil || res.Out != "[]" {
			b.Violate("first-result-not-the-value|"+cls, fmt.Sprintf("want [] (no value), got %s", res))
		}
	}
}

// c12ForeignContext: the helper context carries the call's block whatever implementation of
// hctx.Context the template is rendered with.
func c12ForeignContext(b *core.B) {
	for _, t := range []string{"<%= blk() { %>B<%= 1 %><% } %>", "<%= blk() { %>x<% } %>|<%= blk() { %>y<% } %>", "<%= blkI() { %>I<% } %>", "<%= for (v) in xs { %><%= blk() { %><%= v %><% } %><% } %>"} {
		if !b.Begin("foreign context: " + t) {
			continue
		}
		b.NonTrivialStr("foreign", t)
		b.Count("helper-context-with-foreign-context")
		var out string
		var err error
		pan := core.Guard(func() {
			fc := helptest.NewContext()
			fc.Set("xs", []int{1, 2})
			fc.Set("blk", func(h plush.HelperContext) (template.HTML, error) {
				s, err := h.Block()
				return template.HTML(s), err
			})
			fc.Set("blkI", func(h hctx.HelperContext) (template.HTML, error) {
				s, err := h.Block()
				return template.HTML(s), err
			})
			out, err = plush.Render(t, fc)
		})
		if pan != nil {
			b.Violate(pan.Sig(), pan.Value)
			continue
		}
		want := map[string]string{"<%= blk() { %>B<%= 1 %><% } %>": "B1", "<%= blk() { %>x<% } %>|<%= blk() { %>y<% } %>": "x|y", "<%= blkI() { %>I<% } %>": "I", "<%= for (v) in xs { %><%= blk() { %><%= v %><% } %><% } %>": "12"}[t]
		if err != nil || out != want {
			b.Violate("block-not-delivered|foreign-context", fmt.Sprintf("want %q, got %q %v", want, out, err))
		}
	}
}

// c12EmptyBlocks: a block with nothing in it is still the call's block: the helper context
// says it has one, and rendering it gives the empty string, not an error.
func c12EmptyBlocks(b *core.B) {
	for _, t := range []string{"<%= probe() { } %>", "<%= probe() {} %>", "<%= probe() { %><% } %>", "<%= probeI() { %><% } %>", "<%= probeP() { } %>", "<%= probe() { # nothing\n } %>", "<%= probe() %>"} {
		if !b.Begin("empty block: " + t) {
			continue
		}
		b.NonTrivialStr("empty-block", t)
		b.Count("calls-with-an-empty-block")
		ctx := plush.NewContext()
		ctx.Set("probe", func(h plush.HelperContext) string {
			s, err := h.Block()
			return fmt.Sprintf("has=%v block=%q err=%v", h.HasBlock(), s, err != nil)
		})
		ctx.Set("probeI", func(h hctx.HelperContext) string {
			s, err := h.Block()
			return fmt.Sprintf("has=%v block=%q err=%v", h.HasBlock(), s, err != nil)
		})
		ctx.Set("probeP", func(h *plush.HelperContext) string {
			s, err := h.Block()
			return fmt.Sprintf("has=%v block=%q err=%v", h.HasBlock(), s, err != nil)
		})
		res := render(b, t, ctx)
		want := `has=true block="" err=false`
		if t == "<%= probe() %>" {
			want = `has=false block="" err=true`
		}
		want = template.HTMLEscapeString(want)
		if res.Pan == nil && (res.Err != nil || res.Out != want) {
			b.Violate("block-not-delivered|empty-block", fmt.Sprintf("want %q, got %s", want, res))
		}
	}
}

// c12LiteralsAreFresh: an argument written as a literal is evaluated at every call: a helper
// that changes the map or slice it was given does not change what the next call receives.
func c12LiteralsAreFresh(b *core.B) {
	for _, t := range []string{
		`<%= for (i) in [1, 2, 3] { %><%= eat({a: 1, b: "x"}) %>;<% } %>`,
		`<%= for (i) in [1, 2, 3] { %><%= eatOpt("s", {a: 1, b: "x"}) %>;<% } %>`,
		`<%= for (i) in [1, 2, 3] { %><%= eatList([1, "x"]) %>;<% } %>`,
		`<%= for (i) in [1, 2, 3] { %><%= eat({a: 1, b: {c: 2}}) %>;<% } %>`,
		`<% let f = fn() { return eat({a: 1, b: "x"}) } %><%= f() %>;<%= f() %>;<%= f() %>;`,
	} {
		if !b.Begin("literal arguments: " + t) {
			continue
		}
		b.NonTrivialStr("literal-arguments", t)
		b.Count("calls-with-literal-arguments-repeated")
		tm, err := plush.NewTemplate(t)
		if err != nil {
			b.Violate("literal-argument-rejected", err.Error())
			continue
		}
		var outs []string
		pan := core.Guard(func() {
			for i := 0; i < 2; i++ {
				ctx := plush.NewContext()
				show := func(m map[string]interface{}) string {
					ks := []string{}
					for k, v := range m {
						ks = append(ks, fmt.Sprintf("%s=%v", k, v))
					}
					sort.Strings(ks)
					return strings.Join(ks, ",")
				}
				ctx.Set("eat", func(m map[string]interface{}) string {
					got := show(m)
					delete(m, "a")
					m["left"] = "over"
					return got
				})
				ctx.Set("eatOpt", func(s string, m map[string]interface{}) string {
					got := show(m)
					delete(m, "b")
					m["left"] = "over"
					return got
				})
				ctx.Set("eatList", func(l []interface{}) string {
					got := fmt.Sprint(l)
					l[0] = "eaten"
					return got
				})
				s, err := tm.Exec(ctx)
				outs = append(outs, fmt.Sprintf("%q %v", s, err))
			}
		})
		if pan != nil {
			b.Violate(pan.Sig(), pan.Value)
			continue
		}
		first := outs[0]
		parts := strings.Split(strings.Trim(strings.TrimSuffix(first, " <nil>"), `"`), ";")
		ok := strings.HasSuffix(first, " <nil>") && len(parts) == 4 && parts[0] == parts[1] && parts[1] == parts[2] && outs[1] == first
		if !ok {
			b.Violate("argument-changed|literal-shared-between-calls", fmt.Sprintf("every call must receive what is written down; first execution %s, second %s", outs[0], outs[1]))
		}
	}
}

func c12KeptContexts(b *core.B) {
	type kept struct {
		name     string
		hasBlock func() bool
		block    func() (string, error)
	}
	for variant := 0; variant < 3; variant++ {
		for _, tmpl := range []string{
			"<%= keep() %>|<%= blk() { %>BLOCK<% } %>|<%= keep() %>|<%= blk() { %>SECOND<% } %>",
			"<%= for (i) in [1, 2, 3] { %><%= keep() %><%= blk() { %>B<%= i %><% } %><% } %>",
			"<%= blk() { %>FIRST<% } %><%= keep() %><%= blk() { %>X<%= keep() %>Y<% } %>",
		} {
			if !b.Begin(fmt.Sprintf("kept helper contexts (context parameter variant %d): %s", variant, tmpl)) {
				continue
			}
			b.NonTrivialStr("kept", fmt.Sprint(variant), tmpl)
			var all []kept
			ctx := plush.NewContext()
			switch variant {
			case 0:
				ctx.Set("keep", func(h plush.HelperContext) string {
					all = append(all, kept{"plush.HelperContext", h.HasBlock, h.Block})
					return "k"
				})
			case 1:
				ctx.Set("keep", func(h hctx.HelperContext) string {
					all = append(all, kept{"hctx.HelperContext", h.HasBlock, h.Block})
					return "k"
				})
			default:
				ctx.Set("keep", func(h *plush.HelperContext) string {
					all = append(all, kept{"*plush.HelperContext", h.HasBlock, h.Block})
					return "k"
				})
			}
			ctx.Set("blk", func(h hctx.HelperContext) (template.HTML, error) {
				s, err := h.Block()
				return template.HTML(s), err
			})
			res := render(b, tmpl, ctx)
			if res.Pan != nil {
				continue
			}
			if res.Err != nil {
				b.Violate("kept-context|render-failed", res.Err.Error())
				continue
			}
			pan := core.Guard(func() {
				for i, k := range all {
					if k.hasBlock() {
						s, err := k.block()
						b.Violate("kept-context-gained-a-block|"+k.name, fmt.Sprintf("context %d was given to a call without a block; after the render it reports HasBlock() == true and renders %q (err %v)", i, s, err))
						return
					}
					if _, err := k.block(); err == nil {
						b.Violate("kept-context-gained-a-block|"+k.name, fmt.Sprintf("context %d: Block() succeeds although the call had no block", i))
						return
					}
				}
			})
			if pan != nil {
				b.Violate("kept-context|"+pan.Sig(), pan.Value)
			}
			b.Count("kept-contexts-inspected")
		}
	}
}

func c12Class(s c12Sig, args []c12Arg) string {
	f := []string{}
	if s.variadic != nil {
		f = append(f, "variadic:"+s.variadic.String())
	}
	if s.mapT != nil {
		f = append(f, "map")
	}
	if s.ctxT != nil {
		f = append(f, "ctx:"+s.ctxT.String())
	}
	for _, a := range args {
		if a.name == "nil" {
			f = append(f, "nil-arg")
			break
		}
	}
	if len(f) == 0 {
		return "plain"
	}
	return strings.Join(f, "+")
}

// c12KeptHelperContexts: the helper context a call receives is that call's own - also when
// the helper takes it by pointer and keeps it (as contentFor keeps blocks): what it holds
// (its block, or that it has none) is what was written at that call, after any number of
// later calls.
func c12KeptHelperContexts(b *core.B) {
	for _, byPtr := range []bool{true, false} {
		for n := 2; n <= 5; n++ {
			for mask := 0; mask < 1<<n; mask++ {
				// bit i of mask: call i has a block
				var src, want strings.Builder
				for i := 0; i < n; i++ {
					if mask&(1<<i) != 0 {
						fmt.Fprintf(&src, "<%% keep(\"k%d\") { %%>B%d<%%= %d %%><%% } %%>", i, i, i)
					} else {
						fmt.Fprintf(&src, "<%% keep(\"k%d\") %%>", i)
					}
				}
				src.WriteString("[")
				want.WriteString("[")
				for i := n - 1; i >= 0; i-- {
					fmt.Fprintf(&src, "<%%= replay(\"k%d\") %%>|", i)
					if mask&(1<<i) != 0 {
						fmt.Fprintf(&want, "B%d%d|", i, i)
					} else {
						want.WriteString("(none)|")
					}
				}
				src.WriteString("]")
				want.WriteString("]")
				if !b.Begin(src.String() + fmt.Sprintf("  (helper context by pointer: %v)", byPtr)) {
					continue
				}
				ctx := plush.NewContext()
				keptP := map[string]*plush.HelperContext{}
				keptV := map[string]plush.HelperContext{}
				if byPtr {
					ctx.Set("keep", func(name string, h *plush.HelperContext) string { keptP[name] = h; return "" })
				} else {
					ctx.Set("keep", func(name string, h plush.HelperContext) string { keptV[name] = h; return "" })
				}
				ctx.Set("replay", func(name string, h plush.HelperContext) (template.HTML, error) {
					var k plush.HelperContext
					if p, ok := keptP[name]; ok {
						k = *p
					} else {
						k = keptV[name]
					}
					if !k.HasBlock() {
						return "(none)", nil
					}
					s, err := k.BlockWith(h.New())
					return template.HTML(s), err
				})
				res := render(b, src.String(), ctx)
				b.NonTrivialStr(src.String(), fmt.Sprint(byPtr))
				b.Count("helper-contexts-kept-over-later-calls")
				if res.Pan == nil && (res.Err != nil || res.Out != want.String()) {
					b.Violate("kept-helper-context-shows-another-call", fmt.Sprintf("want %q, got %s", want.String(), res))
				}
			}
		}
	}
}

func c12Run(b *core.B) {
	if b.Batch == 0 {
		c12KeptHelperContexts(b)
	}
	sigs := c12Sigs(2)
	b.SetExtra("signatures_in_family", len(sigs))
	nargKinds := 11
	var shapes [][]int
	var rec func(cur []int, n int)
	rec = func(cur []int, n int) {
		if len(cur) == n {
			shapes = append(shapes, append([]int{}, cur...))
			return
		}
		for a := 0; a < nargKinds; a++ {
			rec(append(cur, a), n)
		}
	}
	for n := 0; n <= 3; n++ {
		rec(nil, n)
	}
	stride := int64(60)
	if b.Tier == core.Thorough {
		stride = 1
	}
	var idx int64
	for si, s := range sigs {
		for hi, sh := range shapes {
			for blk := 0; blk < 2; blk++ {
				idx++
				// quick: a stratified 1/60 sample that still crosses every signature with every arity
				if (idx+int64(si)*7+int64(hi))%stride != 0 && !(len(sh) <= 1) {
					continue
				}
				if len(sh) <= 1 && stride > 1 && (idx%3 != 0) {
					continue
				}
				if !b.Mine(idx) {
					continue
				}
				c12One(b, s, sh, blk == 1)
			}
		}
	}
	// methods on struct receivers (value, pointer, through a field), all calls of 0-3 arguments
	mnames := []string{"M0", "M1", "M2", "MP", "PM1", "MM", "MH", "MV"}
	for _, mn := range mnames {
		for _, sh := range shapes {
			for blk := 0; blk < 2; blk++ {
				idx++
				if !b.Mine(idx) {
					continue
				}
				if mn == "PM1" {
					// a pointer-receiver method needs an addressable receiver: only through prcv
					c12CallOn(b, c12Methods[mn], sh, blk == 1, mn, "prcv.")
					continue
				}
				c12Call(b, c12Methods[mn], sh, blk == 1, mn)
			}
		}
	}
	// a helper may keep the context it was given: a context handed to a call
	// without a block must not start carrying the block of a later call
	if b.Batch == 0 {
		c12KeptContexts(b)
		c12ForeignContext(b)
		c12EmptyBlocks(b)
		c12LiteralsAreFresh(b)
	}
	// random: 3 fixed parameters and 4-argument calls
	r := b.Rng(2)
	big := c12Sigs(3)
	n := 20000
	if b.Tier == core.Thorough {
		n = 3000000
	}
	for i := 0; i < n/b.NBatches; i++ {
		s := big[r.Intn(len(big))]
		k := r.Range(0, 4)
		sh := make([]int, k)
		for j := range sh {
			sh[j] = r.Intn(nargKinds)
			// bias towards assignable arguments so that long valid calls occur
			if r.Chance(1, 2) && j < len(s.fixed) {
				switch s.fixed[j] {
				case c12TString:
					sh[j] = 0
				case c12TInt:
					sh[j] = pick(r, []int{1, 6})
				case c12TBool:
					sh[j] = 5
				case c12TPtr:
					sh[j] = 4
				case c12TInts:
					sh[j] = 7
				case c12TFloat:
					sh[j] = 8
				}
			}
		}
		c12One(b, s, sh, r.Bool())
	}
}

func init() {
	core.Register(&core.Prop{
		ID:         "C12",
		Level:      "exploration",
		Rule:       "helper signatures built at run time with reflect.FuncOf/MakeFunc (recording bodies): 0-2 fixed parameters over {string, int, bool, interface{}, *T, []int, float64} x trailing {none, map[string]interface{}, hctx.Map} x {none, plush.HelperContext, hctx.HelperContext} or a variadic tail {...string, ...int, ...interface{}, ...float64} x 8 result shapes (incl. an error result declared as a pointer type, nil and non-nil) ((), (T), (T,nil), (T,err), (nil error), (err)) signatures, crossed with every call of 0-3 arguments over 11 argument kinds (string, int, float, nil, hash literal, pointer variable, bool, recorded call, []int variable, typed nil pointer, nil []string) with and without a block (all pairs in thorough, a stratified 1/60 sample in quick), plus 8 recording methods on struct receivers (value receiver, pointer receiver, receiver reached through a field) crossed with the same calls, plus random 3-parameter signatures and 4-argument calls. Oracle: a reference binder written from the property text predicts accept/reject and the exact received arguments; the recording body reports what arrived (values, zero values for nil, auto-supplied map/context incl. the block rendered through the context, variadic tail), the recorded argument trace, invocation count, and result handling. Non-trivial = judged (signature, call) pair.",
		Assume:     []string{"too few non-optional arguments is not judged (the property is silent)", "assignability is Go's reflect AssignableTo, as the property words it"},
		Batches:    batchesQT(16, 64),
		Run:        c12Run,
		Exhaustive: func(t core.Tier) bool { return t == core.Thorough },
	})
}
