package props

import (
	"fmt"
	"html/template"
	"os"
	"path/filepath"
	"regexp"
	"runtime"
	"strings"
	"sync"
	"sync/atomic"
	"time"

	"github.com/anishathalye/porcupine"
	"github.com/gobuffalo/plush/v5"

	"verifharness/internal/core"
)

// C14 — shared templates, the cache and contexts are safe under concurrent
// use. Deciding oracles: the Go race detector (this worker is built -race),
// equality with sequential results, linearizability of Context histories
// (porcupine).

var (
	c14Active   int64
	c14MaxOver  int64
	c14Yields   uint64
	c14FP       uint64
	c14YieldOn  int32
	c14SeedMix  uint64
	c14YieldsAt uint64
)

func c14Yield() {
	n := atomic.AddUint64(&c14Yields, 1)
	act := atomic.LoadInt64(&c14Active)
	atomic.AddUint64(&c14FP, core.Mix(n<<8|uint64(act)))
	h := core.Mix(n ^ c14SeedMix)
	switch {
	case h%64 == 0:
		time.Sleep(20 * time.Microsecond)
	case h%4 == 0:
		runtime.Gosched()
	}
}

// c14Quiet: in every other batch the harness itself does nothing that synchronises the
// goroutines it starts (no shared counters, no yield hook). Atomic counters order
// the executions they count, and a happens-before race detector does not report two
// accesses that the harness has ordered by accident.
var c14Quiet bool

func c14Enter() {
	if c14Quiet {
		return
	}
	a := atomic.AddInt64(&c14Active, 1)
	for {
		m := atomic.LoadInt64(&c14MaxOver)
		if a <= m || atomic.CompareAndSwapInt64(&c14MaxOver, m, a) {
			break
		}
	}
}
func c14Leave() {
	if c14Quiet {
		return
	}
	atomic.AddInt64(&c14Active, -1)
}

type c14Obs struct{ out, err, trace string }

func c14Exec(t *plush.Template, ctx *plush.Context, env *progEnv) (o c14Obs, pan *core.PanicInfo) {
	c14Enter()
	defer c14Leave()
	pan = core.Guard(func() {
		s, err := t.Exec(ctx)
		o.out = s
		if err != nil {
			o.err = reHexAddr.ReplaceAllString(err.Error(), "0xADDR")
		}
	})
	if env != nil {
		o.trace = strings.Join(env.trace, ",")
	}
	return
}

// childCtx makes a child of the shared parent with a goroutine-private recorder.
func c14Child(parent *plush.Context, env *progEnv) *plush.Context {
	c := parent.New().(*plush.Context)
	c.Set("val", func(id string, v interface{}) interface{} {
		env.trace = append(env.trace, id)
		return v
	})
	return c
}

func c14W1(b *core.B, r *core.Rng, nProg int) {
	if !c14Quiet {
		plush.VerifSetYield(c14Yield)
		defer plush.VerifSetYield(nil)
	}
	fps := map[uint64]bool{}
	for pi := 0; pi < nProg; pi++ {
		if c14RaceLogFull(b) {
			break
		}
		salt := fmt.Sprintf("|u%d_%d_%d", b.Seed, b.Batch, pi)
		p := genProgram(r, 2, func(g *pGen) { g.noAssign = true; g.hashBias = true; g.salt = salt; g.partials = true })
		text := p.canonical()
		if pi%3 == 0 {
			// make sure every third program evaluates a pattern nobody has compiled yet
			text += "<%= cs ~= \"^zz" + salt + "\" %><%= truncate(cs) %><%= pathFor(pf" + fmt.Sprint(pi%8) + ") %><%= spare + ci + \"" + salt + "\" %>"
		}
		if pi%3 == 1 {
			// paths that go on after a call and end in a method call (or in a member that is not there):
			// what the evaluator works out about them while it runs, it must not write into the shared tree
			text += "<%= tn.Self().Next.Label() %><%= tn.PSelf().Next.PLabel() %><%= for (i) in [1, 2] { %><%= tn.Self().Next.Add(i, 1) %><% } %><%= tn.Self().Next.Self().Name %>"
			if pi%2 == 1 {
				text += "<%= tn.Self().Next.Nope" + fmt.Sprint(pi) + "() %>"
			}
		}
		if !b.Begin("W1 " + text) {
			continue
		}
		t, err := plush.NewTemplate(text)
		if err != nil {
			continue
		}
		if pi%4 == 0 {
			// a fresh Clone that nobody has executed yet: the goroutines below are its first users
			t = t.Clone()
			b.Count("W1:fresh-clone-executed-concurrently-first")
		}
		parent := progCtx(nil)
		for _, shared := range []bool{false, true} {
			mk := func() (*plush.Context, *progEnv) {
				env := &progEnv{}
				if shared {
					return c14Child(parent, env), env
				}
				return progCtx(env), env
			}
			// for every other program the sequential reference is taken after the
			// concurrent phase, so that the goroutines are the first to run the
			// template (lazily initialised or memoised state is then cold)
			refFirst := pi%2 == 1
			var ref c14Obs
			haveRef := false
			takeRef := func() bool {
				ctx0, env0 := mk()
				var pan *core.PanicInfo
				ref, pan = c14Exec(t, ctx0, env0)
				if pan != nil {
					b.Violate(pan.Sig(), "sequential execution: "+pan.Value)
					return false
				}
				haveRef = true
				return true
			}
			if refFirst && !takeRef() {
				continue
			}
			type late struct {
				g, rep int
				o      c14Obs
			}
			var lates []late
			for _, G := range []int{2, 4, 8, 16, 32} {
				atomic.StoreUint64(&c14FP, 0)
				start := make(chan struct{})
				var wg sync.WaitGroup
				var mu sync.Mutex
				var bad []string
				for g := 0; g < G; g++ {
					wg.Add(1)
					go func(g int) {
						defer wg.Done()
						<-start
						for rep := 0; rep < 3 && atomic.LoadInt32(&c14LogFull) == 0; rep++ {
							ctx, env := mk()
							o, pan := c14Exec(t, ctx, env)
							if pan != nil {
								mu.Lock()
								bad = append(bad, "panic: "+pan.Sig()+": "+pan.Value)
								mu.Unlock()
								return
							}
							if !haveRef {
								mu.Lock()
								lates = append(lates, late{g, rep, o})
								mu.Unlock()
								continue
							}
							if o != ref {
								mu.Lock()
								bad = append(bad, fmt.Sprintf("goroutine %d rep %d: sequential %v, concurrent %v", g, rep, ref, o))
								mu.Unlock()
								return
							}
						}
					}(g)
				}
				close(start)
				wg.Wait()
				fps[atomic.LoadUint64(&c14FP)] = true
				mode := map[bool]string{true: "child-of-shared-parent", false: "own-root"}[shared]
				b.Count(fmt.Sprintf("W1:%s:G=%d", mode, G))
				if len(bad) > 0 {
					b.Violate("concurrent-result-differs|W1|"+mode, strings.Join(bad, "\n"))
				}
				if !haveRef {
					// first group done: now take the sequential reference and judge what was collected
					if !takeRef() {
						break
					}
					for _, l := range lates {
						if l.o != ref {
							b.Violate("concurrent-result-differs|W1|"+mode, fmt.Sprintf("goroutine %d rep %d (before any sequential run): sequential %v, concurrent %v", l.g, l.rep, ref, l.o))
							break
						}
					}
				}
			}
		}
		b.NonTrivialStr(text)
	}
	b.CountN("W1:distinct-interleaving-fingerprints", int64(len(fps)))
	b.CountN("W1:yield-points-passed", int64(atomic.LoadUint64(&c14Yields)))
}

func c14W2(b *core.B, r *core.Rng, rounds int) {
	plush.CacheEnabled = true
	defer func() { plush.CacheEnabled = false }()
	for round := 0; round < rounds; round++ {
		if c14RaceLogFull(b) {
			break
		}
		texts := []string{}
		refs := map[string]c14Obs{}
		for len(texts) < 6 {
			p := genProgram(r, 2, func(g *pGen) { g.noAssign = true })
			tx := p.canonical() + fmt.Sprintf("<%%# w2 %d-%d-%d %%>", b.Batch, round, len(texts))
			env := &progEnv{}
			rr := renderQuietNoCache(tx, progCtx(env))
			if rr.Pan != nil {
				continue
			}
			o := c14Obs{out: rr.Out, trace: strings.Join(env.trace, ",")}
			if rr.Err != nil {
				o.err = reHexAddr.ReplaceAllString(rr.Err.Error(), "0xADDR")
			}
			refs[tx] = o
			texts = append(texts, tx)
		}
		if !b.Begin("W2 " + strings.Join(texts, "\n=====\n")) {
			continue
		}
		G := []int{4, 8, 16, 32}[round%4]
		start := make(chan struct{})
		var wg sync.WaitGroup
		var mu sync.Mutex
		var bad []string
		for g := 0; g < G; g++ {
			wg.Add(1)
			gr := core.Derive(b.Seed, 0xC14, uint64(b.Batch), uint64(round), uint64(g))
			go func(g int) {
				defer wg.Done()
				<-start
				for step := 0; step < 30; step++ {
					tx := texts[gr.Intn(len(texts))]
					env := &progEnv{}
					ctx := progCtx(env)
					var o c14Obs
					pan := core.Guard(func() {
						var s string
						var err error
						switch gr.Intn(4) {
						case 0:
							s, err = plush.Render(tx, ctx)
						case 1:
							var t *plush.Template
							t, err = plush.Parse(tx)
							if err == nil {
								s, err = t.Exec(ctx)
							}
						case 2:
							var t *plush.Template
							t, err = plush.Parse(tx)
							if err == nil {
								plush.CacheSet(tx, t)
								s, err = t.Clone().Exec(ctx)
							}
						default:
							// a never-seen text: cold path under contention
							cold := tx + fmt.Sprintf("<%%# cold %d-%d %%>", g, step)
							s, err = plush.Render(cold, ctx)
						}
						o.out = s
						if err != nil {
							o.err = reHexAddr.ReplaceAllString(err.Error(), "0xADDR")
						}
					})
					o.trace = strings.Join(env.trace, ",")
					if pan != nil {
						mu.Lock()
						bad = append(bad, "panic: "+pan.Sig()+": "+pan.Value)
						mu.Unlock()
						return
					}
					if o != refs[tx] {
						mu.Lock()
						bad = append(bad, fmt.Sprintf("goroutine %d: sequential %v, concurrent %v", g, refs[tx], o))
						mu.Unlock()
						return
					}
				}
			}(g)
		}
		close(start)
		wg.Wait()
		b.Count(fmt.Sprintf("W2:cache-on:G=%d", G))
		b.NonTrivialStr(strings.Join(texts, "|"))
		if len(bad) > 0 {
			b.Violate("concurrent-result-differs|W2-cache", strings.Join(bad, "\n"))
		}
	}
}

// W4: the layout pattern — one execution declares a contentFor block, a later
// execution with the same context replays it with contentOf — run by many
// goroutines at once, each with its own child of a shared parent.
func c14W4(b *core.B, r *core.Rng, rounds int) {
	for round := 0; round < rounds; round++ {
		if c14RaceLogFull(b) {
			break
		}
		body := genProgram(r, 1, func(g *pGen) { g.noAssign = true; g.noFail = true })
		loopInBlock := ""
		if round%16 == 15 {
			// the stored block calls a template function that calls itself 200 deep: how deep one execution
			// is nested is its own affair, the executions that replay the block do not add up
			loopInBlock = "<% let deep = fn(n) { if (n == 0) { return 0 } return 1 + deep(n - 1) } %>{<%= deep(200) %>}"
		}
		if round%16 == 7 {
			// the stored block replays itself a few hundred levels deep (bounded by its data)
			loopInBlock = "<% contentFor(\"deep\") { %><%= if (n > 0) { %><%= contentOf(\"deep\", {n: n - 1}) %><% } %>.<% } %>{<%= len(contentOf(\"deep\", {n: 400})) %>}"
		}
		if round%3 == 2 {
			// the stored block has a loop of its own that a helper's block leaves with break
			loopInBlock = "<%= for (i) in [1, 2, 3] { %><%= cap() { %><%= i %><% if (i == 2) { break } %>,<% } %><% } %>"
		}
		page := "page<% contentFor(\"side\") { %>[" + body.canonical() + loopInBlock + "|<%= who %>]<% } %>"
		layout := "layout(<%= contentOf(\"side\") %>)<%= who %>"
		if !b.Begin("W4 " + page + "\n=====\n" + layout) {
			continue
		}
		tp, err1 := plush.NewTemplate(page)
		tl, err2 := plush.NewTemplate(layout)
		if err1 != nil || err2 != nil {
			continue
		}
		parent := progCtx(nil)
		// every other round: the block is declared once, in the shared parent,
		// and only replayed (with the caller's data) by the concurrent executions
		shared := round%2 == 1
		if shared {
			tl, err2 = plush.NewTemplate("layout(<%= contentOf(\"side\", {who: who}) %>)<%= who %>")
			if err2 != nil {
				continue
			}
			parent.Set("who", "declared-in-parent")
			if pan := core.Guard(func() { _, err1 = tp.Exec(parent) }); pan != nil || err1 != nil {
				continue
			}
		}
		run := func(who string) (string, *core.PanicInfo) {
			env := &progEnv{}
			ctx := c14Child(parent, env)
			ctx.Set("who", who)
			var out string
			pan := core.Guard(func() {
				c14Enter()
				defer c14Leave()
				if shared {
					s2, e2 := tl.Exec(ctx)
					out = fmt.Sprintf("%q %v", s2, e2)
					if e2 == nil && !strings.Contains(s2, "|"+who+"]") {
						out += " (the replayed block does not show this execution's data)"
					}
					return
				}
				s1, e1 := tp.Exec(ctx)
				s2, e2 := tl.Exec(ctx)
				out = fmt.Sprintf("%q %v / %q %v", s1, e1, s2, e2)
			})
			return out, pan
		}
		G := []int{4, 8, 16, 32}[(round/2)%4]
		refs := make([]string, G)
		for g := 0; g < G; g++ {
			o, pan := run(fmt.Sprintf("w%d", g))
			if pan != nil {
				b.Violate(pan.Sig(), "sequential: "+pan.Value)
			}
			refs[g] = o
		}
		start := make(chan struct{})
		var wg sync.WaitGroup
		var mu sync.Mutex
		var bad []string
		for g := 0; g < G; g++ {
			wg.Add(1)
			go func(g int) {
				defer wg.Done()
				<-start
				for rep := 0; rep < 6 && atomic.LoadInt32(&c14LogFull) == 0; rep++ {
					o, pan := run(fmt.Sprintf("w%d", g))
					if pan != nil {
						mu.Lock()
						bad = append(bad, "panic: "+pan.Sig()+": "+pan.Value)
						mu.Unlock()
						return
					}
					if o != refs[g] {
						mu.Lock()
						bad = append(bad, fmt.Sprintf("goroutine %d: sequential %s, concurrent %s", g, refs[g], o))
						mu.Unlock()
						return
					}
				}
			}(g)
		}
		close(start)
		wg.Wait()
		if shared {
			b.Count(fmt.Sprintf("W4:contentFor-in-shared-parent-contentOf-from-children:G=%d", G))
		} else {
			b.Count(fmt.Sprintf("W4:contentFor-then-contentOf-same-context:G=%d", G))
		}
		b.NonTrivialStr(page)
		if len(bad) > 0 {
			b.Violate("concurrent-result-differs|W4-contentFor-contentOf", strings.Join(bad, "\n"))
		}
	}
}

// W5: a helper context kept by a helper of the caller's (what contentFor does) and its block
// replayed by hand by many executions at once; the block ends in a break or continue for some
// of them, and is replayed inside loops and inside other helpers' blocks.
func c14W5(b *core.B, r *core.Rng, rounds int) {
	for round := 0; round < rounds; round++ {
		if c14RaceLogFull(b) {
			break
		}
		ctl := []string{"break", "continue"}[round%2]
		page := "<%= for (q) in [1] { %><% keepSide() { %>[A<% if (odd) { " + ctl + " } %>B|<%= who %>]<% } %><% } %>"
		layout := []string{
			"layout(<%= for (x) in [1, 2] { %>x<%= replaySide() %>y<% } %>)<%= who %>",
			"layout(<%= for (x) in [1, 2] { %><%= cap() { %>x<%= replaySide() %>y<% let q = 1 %>z<% } %><% } %>)<%= who %>",
			"layout(<%= replaySide() %><%= if (true) { %>X<% let q = 1 %>Y<% } %>)<%= who %>",
		}[(round/2)%3]
		if !b.Begin("W5 " + page + "\n=====\n" + layout) {
			continue
		}
		tp, err1 := plush.NewTemplate(page)
		tl, err2 := plush.NewTemplate(layout)
		if err1 != nil || err2 != nil {
			continue
		}
		parent := progCtx(nil)
		var kept plush.HelperContext
		parent.Set("keepSide", func(h plush.HelperContext) string { kept = h; return "" })
		parent.Set("replaySide", func(h plush.HelperContext) (template.HTML, error) {
			s, err := kept.BlockWith(h.New())
			return template.HTML(s), err
		})
		parent.Set("odd", false)
		parent.Set("who", "declared-in-parent")
		if pan := core.Guard(func() { _, err1 = tp.Exec(parent) }); pan != nil || err1 != nil {
			continue
		}
		run := func(g int) (string, *core.PanicInfo) {
			env := &progEnv{}
			ctx := c14Child(parent, env)
			ctx.Set("who", fmt.Sprintf("w%d", g))
			ctx.Set("odd", g%2 == 1)
			var out string
			pan := core.Guard(func() {
				c14Enter()
				defer c14Leave()
				s2, e2 := tl.Exec(ctx)
				out = fmt.Sprintf("%q %v", s2, e2)
			})
			return out, pan
		}
		G := []int{4, 8, 16, 32}[(round/2)%4]
		refs := make([]string, G)
		for g := 0; g < G; g++ {
			o, pan := run(g)
			if pan != nil {
				b.Violate(pan.Sig(), "sequential: "+pan.Value)
			}
			refs[g] = o
		}
		start := make(chan struct{})
		var wg sync.WaitGroup
		var mu sync.Mutex
		var bad []string
		for g := 0; g < G; g++ {
			wg.Add(1)
			go func(g int) {
				defer wg.Done()
				<-start
				for rep := 0; rep < 6 && atomic.LoadInt32(&c14LogFull) == 0; rep++ {
					o, pan := run(g)
					if pan != nil {
						mu.Lock()
						bad = append(bad, "panic: "+pan.Sig()+": "+pan.Value)
						mu.Unlock()
						return
					}
					if o != refs[g] {
						mu.Lock()
						bad = append(bad, fmt.Sprintf("goroutine %d: sequential %s, concurrent %s", g, refs[g], o))
						mu.Unlock()
						return
					}
				}
			}(g)
		}
		close(start)
		wg.Wait()
		b.Count(fmt.Sprintf("W5:kept-block-with-%s-replayed-by-hand:G=%d", ctl, G))
		b.NonTrivialStr(page + layout)
		if len(bad) > 0 {
			b.Violate("concurrent-result-differs|W5-kept-block", strings.Join(bad, "\n"))
		}
	}
}

var c14ColdTemplates = []string{
	`<%= truncate("some text that is much longer than the fifty characters truncate keeps by default") %>`,
	`<%= truncate("abcdef", {size: 3}) %>`, `<%= json({a: 1}) %>`, `<%= toJSON([1, "x"]) %>`, `<%= jsEscape("<a>") %>`, `<%= htmlEscape("<a>") %>`,
	`<%= upcase("a") %><%= downcase("A") %><%= capitalize("ab cd") %>`, `<%= camelize("a_b") %><%= camelize_down_first("a_b") %><%= dasherize("a_b") %><%= underscore("aB") %>`,
	`<%= pluralize("cat") %>`, `<%= singularize("cats") %>`, `<%= ordinalize(3) %>`, `<%= len([1, 2]) %>`,
	`<%= for (i) in range(1, 3) { %><%= i %><% } %><%= for (i) in between(0, 3) { %><%= i %><% } %><%= for (i) in until(2) { %><%= i %><% } %>`,
	`<%= for (g) in groupBy(2, [1, 2, 3]) { %>[<%= g %>]<% } %>`, `<%= inspect({a: 1}) %>`, `<%= debug([1]) %>`, `<%= raw("<b>") %>`,
	`<%= env("NOPE_NOT_SET_ANYWHERE") %>`, `<%= envOr("NOPE_NOT_SET_ANYWHERE", "d") %>`, `<%= pathFor("x") %>`, `<%= pathFor(tt) %>`,
	`<% contentFor("c") { %>C<%= 1 %><% } %><%= contentOf("c") %>|<%= contentOf("d") { %>D<% } %>`,
	`<%= partial("p") %>|<%= partial("p", {layout: "l"}) %>|<%= partial("p.md") %>`,
	`<% let f = fn(x) { return x + 1 } %><%= f(1) %><%= if (nope) { %>a<% } else { %>b<% } %><%= [1, 2] + 3 %><%= "a" ~= "a" %>`,
}

// c14Cold: the very first use of everything - the stock helpers, their option maps, the
// template cache, whatever the library sets up lazily - is made by several executions at
// once, before this process has rendered anything. (Every batch is a process of its own. A
// reference rendered beforehand would do all first uses alone, and everything started
// afterwards would be ordered after them.)
func c14Cold(b *core.B) {
	if !b.Begin("cold start: the stock helpers used for the first time in this process by 8 executions at once") {
		return
	}
	const G = 8
	run := func() []string {
		outs := []string{}
		for _, t := range c14ColdTemplates {
			var o string
			pan := core.Guard(func() {
				ctx := plush.NewContext()
				ctx.Set("tt", newT("cold"))
				ctx.Set("partialFeeder", func(n string) (string, error) {
					if n == "l" {
						return "L(<%= yield %>)", nil
					}
					return "P<%= truncate(\"partial text\") %>", nil
				})
				s, err := plush.Render(t, ctx)
				o = fmt.Sprintf("%q %v", s, err)
			})
			if pan != nil {
				o = "panic: " + pan.Sig() + ": " + pan.Value
			}
			outs = append(outs, reHexAddr.ReplaceAllString(o, "0xADDR"))
		}
		return outs
	}
	res := make([][]string, G)
	start := make(chan struct{})
	var wg sync.WaitGroup
	for g := 0; g < G; g++ {
		wg.Add(1)
		go func(g int) {
			defer wg.Done()
			<-start
			res[g] = run()
		}(g)
	}
	close(start)
	wg.Wait()
	ref := run()
	b.Count("cold-start:first-use-of-the-stock-helpers-by-8-executions-at-once")
	b.NonTrivialStr("cold", fmt.Sprint(b.Batch))
	for g := 0; g < G; g++ {
		for i := range ref {
			if strings.HasPrefix(res[g][i], "panic: ") {
				b.Violate("context-panic|cold-start", c14ColdTemplates[i]+": "+res[g][i])
				return
			}
			if res[g][i] != ref[i] {
				b.Violate("concurrent-result-differs|cold-start", fmt.Sprintf("%s: goroutine %d got %s, a later sequential render %s", c14ColdTemplates[i], g, res[g][i], ref[i]))
				return
			}
		}
	}
}

func renderQuietNoCache(t string, ctx *plush.Context) R {
	var r R
	r.Pan = core.Guard(func() {
		tm, err := plush.NewTemplate(t)
		if err != nil {
			r.Err = err
			return
		}
		r.Out, r.Err = tm.Exec(ctx)
	})
	return r
}

// W3: concurrent Set / Value / Has / New on one context and through children.
type c14Op struct {
	kind string // set value has value-child has-child new
	key  string
	arg  interface{}
}

type c14Reg struct {
	Key string
	Op  c14Op
}

var c14Model = porcupine.Model{
	Partition: func(history []porcupine.Operation) [][]porcupine.Operation {
		m := map[string][]porcupine.Operation{}
		for _, op := range history {
			k := op.Input.(c14Op).key
			m[k] = append(m[k], op)
		}
		var out [][]porcupine.Operation
		for _, v := range m {
			out = append(out, v)
		}
		return out
	},
	Init: func() interface{} { return interface{}(nil) },
	Step: func(state, input, output interface{}) (bool, interface{}) {
		op := input.(c14Op)
		switch op.kind {
		case "set":
			return true, op.arg
		case "value", "value-child":
			return output == state, state
		case "has", "has-child":
			return output.(bool) == (state != nil), state
		}
		return true, state
	},
	Equal: func(a, b interface{}) bool { return a == b },
	DescribeOperation: func(input, output interface{}) string {
		op := input.(c14Op)
		return fmt.Sprintf("%s(%s, %v) -> %v", op.kind, op.key, op.arg, output)
	},
}

func c14W3(b *core.B, r *core.Rng, rounds int, record bool) {
	for round := 0; round < rounds; round++ {
		if c14RaceLogFull(b) {
			break
		}
		if !b.Begin(fmt.Sprintf("W3 round %d (record=%v)", round, record)) {
			continue
		}
		root := plush.NewContext()
		c1 := root.New().(*plush.Context)
		c2 := c1.New().(*plush.Context)
		keys := []string{"k0", "k1", "k2"}[:1+round%3]
		G := []int{2, 4, 8, 16}[round%4]
		opsPer := 40
		if record {
			opsPer = 400 / G
			if opsPer > 25 {
				opsPer = 25
			}
		}
		var clock int64
		var mu sync.Mutex
		var hist []porcupine.Operation
		start := make(chan struct{})
		var wg sync.WaitGroup
		var bad []string
		for g := 0; g < G; g++ {
			wg.Add(1)
			gr := core.Derive(b.Seed, 0xC143, uint64(b.Batch), uint64(round), uint64(g))
			go func(g int) {
				defer wg.Done()
				<-start
				var local []porcupine.Operation
				for step := 0; step < opsPer; step++ {
					k := keys[gr.Intn(len(keys))]
					op := c14Op{key: k}
					var out interface{}
					t0 := atomic.AddInt64(&clock, 1)
					pan := core.Guard(func() {
						switch gr.Intn(8) {
						case 0, 1, 2:
							op.kind, op.arg = "set", fmt.Sprintf("g%d-%d", g, step)
							root.Set(k, op.arg)
						case 3:
							op.kind = "value"
							out = root.Value(k)
						case 4:
							op.kind = "has"
							out = root.Has(k)
						case 5:
							op.kind = "value-child"
							out = c2.Value(k)
						case 6:
							op.kind = "has-child"
							out = c1.Has(k)
						default:
							op.kind = "new"
							_ = root.New()
							_ = c1.New()
						}
					})
					t1 := atomic.AddInt64(&clock, 1)
					if pan != nil {
						mu.Lock()
						bad = append(bad, pan.Sig()+": "+pan.Value)
						mu.Unlock()
						return
					}
					if record && op.kind != "new" {
						local = append(local, porcupine.Operation{ClientId: g, Input: op, Call: t0, Output: out, Return: t1})
					}
				}
				mu.Lock()
				hist = append(hist, local...)
				mu.Unlock()
			}(g)
		}
		close(start)
		wg.Wait()
		b.Count(fmt.Sprintf("W3:G=%d:keys=%d", G, len(keys)))
		b.NonTrivialStr(fmt.Sprint("W3", b.Batch, round, record))
		if len(bad) > 0 {
			b.Violate("context-panic|W3", strings.Join(bad, "\n"))
			continue
		}
		if record {
			res, info := porcupine.CheckOperationsVerbose(c14Model, hist, 60*time.Second)
			b.CountN("W3:history-operations-checked", int64(len(hist)))
			switch res {
			case porcupine.Ok:
				b.Count("W3:linearizable-histories")
			case porcupine.Unknown:
				b.Inconclusive()
				b.Count("W3:checker-timeout")
			case porcupine.Illegal:
				_ = info
				var sb strings.Builder
				for _, o := range hist {
					fmt.Fprintf(&sb, "client %d [%d,%d] %s\n", o.ClientId, o.Call, o.Return, c14Model.DescribeOperation(o.Input, o.Output))
				}
				b.Violate("context-history-not-linearizable|W3", "no linearization of this Set/Value/Has history exists (register per key):\n"+sb.String())
			}
		}
	}
}

// c14RaceLogFull: a change that makes every execution race fills the detector's log with
// hundreds of megabytes of the same few reports. Once this process' log holds more than
// 16 MB there is nothing more to learn from further rounds: the workload stops early and
// the reports that are there are attributed as usual (never the case on a tree that holds).
func c14RaceLogFull(b *core.B) bool {
	if atomic.LoadInt32(&c14LogFull) == 0 {
		return false
	}
	b.Count("workload-stopped-early:race-log-over-16MB")
	return true
}

// c14LogFull is set by a poller (c14WatchRaceLog) so that the goroutines of a round can leave
// their repetitions without touching the file system or the batch's counters.
var c14LogFull int32

func c14WatchRaceLog() {
	logBase := os.Getenv("VERIF_RACE_LOG")
	if logBase == "" {
		return
	}
	name := fmt.Sprintf("%s.%d", logBase, os.Getpid())
	go func() {
		for {
			time.Sleep(200 * time.Millisecond)
			if st, err := os.Stat(name); err == nil && st.Size() >= 16<<20 {
				atomic.StoreInt32(&c14LogFull, 1)
				return
			}
		}
	}()
}

var reRaceFrame = regexp.MustCompile(`(?m)^  (\S+)\(.*\)\n\s+(\S+):(\d+)`)

// c14RaceReports parses this process' race log and reports attributed blocks.
func c14RaceReports(b *core.B) {
	logBase := os.Getenv("VERIF_RACE_LOG")
	if logBase == "" {
		return
	}
	files, _ := filepath.Glob(fmt.Sprintf("%s.%d", logBase, os.Getpid()))
	total := 0
	for _, f := range files {
		d, err := os.ReadFile(f)
		if err != nil {
			continue
		}
		blocks := strings.Split(string(d), "WARNING: DATA RACE")
		for _, blk := range blocks[1:] {
			total++
			if i := strings.Index(blk, "=================="); i >= 0 {
				blk = blk[:i]
			}
			// sections: the first two stacks are the two accesses
			secs := regexp.MustCompile(`(?m)^(?:Read|Write|Previous read|Previous write|Previous atomic|Atomic)[^\n]*\n`).Split(blk, -1)
			tops := []string{}
			inPlush := false
			for _, sec := range secs[1:] {
				if j := strings.Index(sec, "\n\n"); j >= 0 {
					sec = sec[:j]
				}
				fr := reRaceFrame.FindAllStringSubmatch(sec, -1)
				top := "?"
				for _, m := range fr {
					if strings.HasPrefix(m[2], core.RepoDir()+"/") || strings.Contains(m[1], "gobuffalo/plush") {
						top = strings.TrimPrefix(m[1], "github.com/gobuffalo/plush/v5")
						top = strings.TrimPrefix(strings.TrimPrefix(top, "/"), ".")
						inPlush = true
						break
					}
				}
				if top == "?" && len(fr) > 0 {
					top = "harness:" + fr[0][1]
				}
				tops = append(tops, top)
				if len(tops) == 2 {
					break
				}
			}
			for len(tops) < 2 {
				tops = append(tops, "?")
			}
			if tops[0] > tops[1] {
				tops[0], tops[1] = tops[1], tops[0]
			}
			sig := "race:" + tops[0] + "|" + tops[1]
			if !inPlush {
				sig = "harness-race:" + tops[0] + "|" + tops[1]
			}
			b.ViolateIn(sig, "race detector report in batch "+fmt.Sprint(b.Batch), "WARNING: DATA RACE"+clip2(blk, 1800))
		}
	}
	b.CountN("race-detector:report-blocks", int64(total))
}

func clip2(s string, n int) string {
	if len(s) > n {
		return s[:n] + "…"
	}
	return s
}

func c14Run(b *core.B) {
	c14SeedMix = core.Mix(b.Seed*1315423911 + uint64(b.Batch))
	r := b.Rng(1)
	scale := 1
	if b.Tier == core.Thorough {
		scale = 4
	}
	c14Quiet = (b.Batch/5)%2 == 1
	c14WatchRaceLog()
	if c14Quiet {
		b.Count("batches-without-harness-synchronisation")
	}
	c14Cold(b)
	switch b.Batch % 5 {
	case 4:
		c14W4(b, r, 40*scale)
		c14W5(b, r, 12*scale)
	case 0:
		c14W1(b, r, 30*scale)
	case 1:
		c14W2(b, r, 24*scale)
	case 2:
		c14W3(b, r, 48*scale, false)
	case 3:
		c14W3(b, r, 48*scale, true)
	}
	b.SetExtra("max_overlapping_execs_observed", atomic.LoadInt64(&c14MaxOver))
	b.Count(fmt.Sprintf("max-overlapping-execs-in-batch:%d", atomic.LoadInt64(&c14MaxOver)))
	c14RaceReports(b)
}

func init() {
	core.Register(&core.Prop{
		ID:      "C14",
		Level:   "exploration",
		Rule:    "worker processes built with -race (and -tags verif), each sub-workload in its own child process, repeated 5x (quick) / 30x (thorough) because race reports vary from run to run. W1: one parsed template from the shared generator (no mutation of shared data; every fourth one a fresh Clone nobody has executed) executed by G in {2,4,8,16,32} goroutines x 3 repetitions, with own root contexts and with child contexts of one shared parent, hook H3 yielding at statement boundaries under a seeded chooser (in every other repetition the harness keeps quiet instead: no yield hook and no shared counters, whose atomics would order the executions and hide races from a happens-before detector); every result (output, error, side-effect trace) compared with the sequential result. W2: CacheEnabled=true, 4-32 goroutines mixing Render / Parse+Exec / CacheSet+Clone / cold texts over 6 templates, results compared with sequential ones. W4: the layout pattern - per goroutine one execution declaring a contentFor block and a later execution of another template replaying it with contentOf on the same child context of a shared parent, or the block declared once in the shared parent and replayed with per-execution data from its children, 4-32 goroutines. Cold start: at the start of every worker process, before it has rendered anything, 8 executions at once make the first use of every stock helper (races on lazily built or shared state are first-touch races: a sequential reference run beforehand would hide them). W5: a helper context kept by a helper of the caller's, its block - which ends in a break or continue for every other execution - replayed by hand inside loops, inside another helper's block and at top level by 4-32 executions at once. W3: 2-16 goroutines doing Set (unique values) / Value / Has on one context and through its child and grandchild plus New() storms, few keys; in half of the rounds every call is recorded at the client boundary with ticks from one atomic counter and the history (<= 400 operations) is checked for linearizability against a per-key register model with porcupine (timeout -> inconclusive). Oracle for all: every 'WARNING: DATA RACE' block of the process' race log whose innermost frame of either access is plush code is a violation 'race:<f>|<g>'. Non-trivial = a template / round that ran with >= 2 goroutines; evidence reports the maximum number of overlapping Exec calls and the number of distinct interleaving fingerprints observed.",
		Assume:  []string{"a clean run means no race on the interleavings observed, not race freedom", "templates do not mutate data reachable from a shared parent (that would be a user-level race)"},
		Batches: batchesQT(25, 150),
		Run:     c14Run,
		Env: func(root string, batch int) []string {
			logBase := filepath.Join(root, "work", "C14", "race")
			return []string{"GORACE=halt_on_error=0 exitcode=0 history_size=7 log_path=" + logBase, "VERIF_RACE_LOG=" + logBase}
		},
		BatchTimeoutS: func(t core.Tier) int {
			if t == core.Thorough {
				return 1800
			}
			return 400
		},
		Post: func(hist map[string]int64, cov map[string]any) {
			cov["race_report_blocks_seen"] = hist["race-detector:report-blocks"]
			cov["distinct_interleaving_fingerprints_W1"] = hist["W1:distinct-interleaving-fingerprints"]
			cov["yield_points_passed_W1"] = hist["W1:yield-points-passed"]
			cov["history_operations_checked_by_porcupine"] = hist["W3:history-operations-checked"]
			cov["linearizable_histories"] = hist["W3:linearizable-histories"]
		},
	})
}
