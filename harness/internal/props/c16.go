package props

import (
	"fmt"
	"strings"
	"time"

	"github.com/gobuffalo/plush/v5"

	"verifharness/internal/core"
)

// C16 — user-defined functions: parameters bound to argument values evaluated
// in the caller's scope, first return wins, first-class, recursive.

type fExpr struct {
	kind string // param const add
	p    int
	c    interface{}
	l, r *fExpr
}

func (e *fExpr) src(pn []string) string {
	switch e.kind {
	case "param":
		return pn[e.p]
	case "const":
		if s, ok := e.c.(string); ok {
			return `"` + s + `"`
		}
		return fmt.Sprint(e.c)
	}
	return e.l.src(pn) + " + " + e.r.src(pn)
}

func (e *fExpr) eval(args []interface{}) (interface{}, bool) {
	switch e.kind {
	case "param":
		return args[e.p], true
	case "const":
		return e.c, true
	}
	l, ok1 := e.l.eval(args)
	r, ok2 := e.r.eval(args)
	if !ok1 || !ok2 {
		return nil, false
	}
	switch a := l.(type) {
	case int:
		if b, ok := r.(int); ok {
			return a + b, true
		}
		return nil, false
	case string:
		return a + fmt.Sprint(r), true
	}
	return nil, false
}

type fCond struct {
	op   string
	l, r *fExpr
}

func (c *fCond) src(pn []string) string { return c.l.src(pn) + " " + c.op + " " + c.r.src(pn) }

func (c *fCond) eval(args []interface{}) (bool, bool) {
	l, ok1 := c.l.eval(args)
	r, ok2 := c.r.eval(args)
	if !ok1 || !ok2 {
		return false, false
	}
	li, lok := l.(int)
	ri, rok := r.(int)
	if lok && rok {
		switch c.op {
		case "==":
			return li == ri, true
		case "!=":
			return li != ri, true
		case "<":
			return li < ri, true
		case ">":
			return li > ri, true
		case "<=":
			return li <= ri, true
		case ">=":
			return li >= ri, true
		}
	}
	ls, lok2 := l.(string)
	rs, rok2 := r.(string)
	if lok2 && rok2 {
		switch c.op {
		case "==":
			return ls == rs, true
		case "!=":
			return ls != rs, true
		case "<":
			return ls < rs, true
		case ">":
			return ls > rs, true
		case "<=":
			return ls <= rs, true
		case ">=":
			return ls >= rs, true
		}
	}
	return false, false
}

type fStmt struct {
	kind   string // ret tick if
	e      *fExpr
	id     string
	conds  []*fCond
	blocks [][]fStmt // len(conds) (+1 when there is an else)
}

func fPrint(body []fStmt, pn []string, ind string) string {
	var sb strings.Builder
	for _, s := range body {
		switch s.kind {
		case "ret":
			sb.WriteString(ind + "return " + s.e.src(pn) + "\n")
		case "tick":
			sb.WriteString(ind + "tick(\"" + s.id + "\")\n")
		case "if":
			for i, c := range s.conds {
				if i == 0 {
					sb.WriteString(ind + "if (" + c.src(pn) + ") {\n")
				} else {
					sb.WriteString(ind + "} else if (" + c.src(pn) + ") {\n")
				}
				sb.WriteString(fPrint(s.blocks[i], pn, ind+"  "))
			}
			if len(s.blocks) > len(s.conds) {
				sb.WriteString(ind + "} else {\n" + fPrint(s.blocks[len(s.conds)], pn, ind+"  "))
			}
			sb.WriteString(ind + "}\n")
		}
	}
	return sb.String()
}

// fExec is the reference: (value, returned, specified)
func fExec(body []fStmt, args []interface{}, ticks *[]string) (interface{}, bool, bool) {
	for _, s := range body {
		switch s.kind {
		case "ret":
			v, ok := s.e.eval(args)
			return v, true, ok
		case "tick":
			*ticks = append(*ticks, s.id)
		case "if":
			taken := -1
			for i, c := range s.conds {
				t, ok := c.eval(args)
				if !ok {
					return nil, false, false
				}
				if t {
					taken = i
					break
				}
			}
			if taken < 0 && len(s.blocks) > len(s.conds) {
				taken = len(s.conds)
			}
			if taken >= 0 {
				v, ret, ok := fExec(s.blocks[taken], args, ticks)
				if !ok {
					return nil, false, false
				}
				if ret {
					return v, true, true
				}
			}
		}
	}
	return nil, false, true
}

type c16Gen struct {
	r      *core.Rng
	np     int
	strs   bool // string-typed parameters
	nTick  int
	consts []interface{}
}

func (g *c16Gen) expr(d int) *fExpr {
	k := g.r.Intn(5)
	if g.np == 0 && k < 2 {
		k = 2
	}
	switch {
	case k < 2:
		return &fExpr{kind: "param", p: g.r.Intn(g.np)}
	case k < 4 || d <= 0:
		return &fExpr{kind: "const", c: g.consts[g.r.Intn(len(g.consts))]}
	}
	return &fExpr{kind: "add", l: g.expr(d - 1), r: g.expr(d - 1)}
}

func (g *c16Gen) cond() *fCond {
	return &fCond{op: pick(g.r, []string{"==", "!=", "<", ">", "<=", ">="}), l: g.expr(0), r: g.expr(0)}
}

func (g *c16Gen) block(d int, mustReturn bool) []fStmt {
	out := []fStmt{}
	n := g.r.Range(0, 2)
	for i := 0; i < n; i++ {
		switch g.r.Intn(4) {
		case 0:
			g.nTick++
			out = append(out, fStmt{kind: "tick", id: fmt.Sprintf("t%d", g.nTick)})
		case 1, 2:
			if d > 0 {
				nc := g.r.Range(1, 3)
				st := fStmt{kind: "if"}
				for j := 0; j < nc; j++ {
					st.conds = append(st.conds, g.cond())
					st.blocks = append(st.blocks, g.block(d-1, g.r.Bool()))
				}
				if g.r.Bool() {
					st.blocks = append(st.blocks, g.block(d-1, g.r.Bool()))
				}
				out = append(out, st)
			}
		case 3:
			// an early return followed by statements that must be skipped
			out = append(out, fStmt{kind: "ret", e: g.expr(1)})
			g.nTick++
			out = append(out, fStmt{kind: "tick", id: fmt.Sprintf("after%d", g.nTick)})
		}
	}
	if mustReturn {
		out = append(out, fStmt{kind: "ret", e: g.expr(1)})
	}
	return out
}

type c16Env struct {
	ticks []string
	vals  []string
}

func c16Ctx(env *c16Env) *plush.Context {
	ctx := plush.NewContext()
	ctx.Set("tick", func(id string) string {
		env.ticks = append(env.ticks, id)
		return ""
	})
	ctx.Set("val", func(id string, v interface{}) interface{} {
		env.vals = append(env.vals, id)
		return v
	})
	ctx.Set("ident", func(x interface{}) interface{} { return x })
	ctx.Set("mm", map[string]interface{}{"present": 1})
	rec := newT("r")
	rec.Next = &T{Name: "n"}
	ctx.Set("rec", rec)
	ctx.Set("dur", 1500*time.Millisecond)
	ctx.Set("lvl", c16Level(2))
	ctx.Set("f32", float32(0.1))
	ctx.Set("i8", 7)
	ctx.Set("wantsDur", func(d time.Duration) string { return d.String() })
	ctx.Set("recs", []T{newT("r0"), newT("r1")})
	ctx.Set("one1", []interface{}{"only"})
	ctx.Set("nested2", []interface{}{[]interface{}{1, 2}, []interface{}{3}})
	ctx.Set("xs", []interface{}{"x0", "x1", "x2", "x3", "x4", "x5", "x6", "x7", "x8", "x9"})
	return ctx
}

type c16Level int64

func (l c16Level) String() string { return []string{"low", "mid", "high"}[l] }

func c16Truthy(v interface{}) bool {
	switch t := v.(type) {
	case nil:
		return false
	case string:
		return t != ""
	case bool:
		return t
	}
	return true
}

func c16Run(b *core.B) {
	r := b.Rng(1)
	n := 12000
	if b.Tier == core.Thorough {
		n = 6000000
	}
	for i := 0; i < n/b.NBatches; i++ {
		g := &c16Gen{r: r, np: r.Range(0, 4), strs: r.Chance(1, 3)}
		if g.strs {
			g.consts = []interface{}{"a", "b", "K1", ""}
		} else {
			g.consts = []interface{}{0, 1, 2, 3}
		}
		pn := []string{"p0", "p1", "p2", "p3"}[:g.np]
		body := g.block(2, true)
		// argument values and expressions
		args := make([]interface{}, g.np)
		argSrc := make([]string, g.np)
		callerLets := ""
		wantVals := []string{}
		// the caller holds variables named like the callee's parameters, with other values
		callerVals := map[string]interface{}{}
		for j := 0; j < 4; j++ {
			v := g.consts[r.Intn(len(g.consts))]
			callerVals[fmt.Sprintf("p%d", j)] = v
			callerLets += fmt.Sprintf("<%% let p%d = %s %%>", j, (&fExpr{kind: "const", c: v}).src(nil))
		}
		for j := 0; j < g.np; j++ {
			switch r.Intn(4) {
			case 0: // constant
				args[j] = g.consts[r.Intn(len(g.consts))]
				argSrc[j] = (&fExpr{kind: "const", c: args[j]}).src(nil)
			case 1: // a caller variable named like some parameter (swaps included)
				name := fmt.Sprintf("p%d", r.Intn(4))
				args[j] = callerVals[name]
				argSrc[j] = name
			case 2: // recorded argument
				args[j] = g.consts[r.Intn(len(g.consts))]
				id := fmt.Sprintf("a%d", j)
				argSrc[j] = "val(\"" + id + "\", " + (&fExpr{kind: "const", c: args[j]}).src(nil) + ")"
				wantVals = append(wantVals, id)
			default: // reversed order of caller variables
				name := fmt.Sprintf("p%d", (g.np-1-j+4)%4)
				args[j] = callerVals[name]
				argSrc[j] = name
			}
		}
		var wantTicks []string
		// a call of the same function nested in an argument (its ticks come first)
		nestedOK := true
		for j := 0; j < g.np; j++ {
			if g.np >= 1 && r.Chance(1, 6) {
				inner := make([]interface{}, g.np)
				innerSrc := make([]string, g.np)
				for q := range inner {
					inner[q] = g.consts[r.Intn(len(g.consts))]
					innerSrc[q] = (&fExpr{kind: "const", c: inner[q]}).src(nil)
				}
				iv, iret, iok := fExec(body, inner, &wantTicks)
				if !iret || !iok {
					nestedOK = false
					break
				}
				args[j] = iv
				argSrc[j] = "f(" + strings.Join(innerSrc, ", ") + ")"
				// recorded arguments to the left of j were evaluated before the nested call ran
				break
			}
		}
		want, returned, ok := fExec(body, args, &wantTicks)
		if !nestedOK {
			ok = false
		}
		wantVals = wantVals[:0]
		for j := range argSrc {
			if strings.HasPrefix(argSrc[j], "val(") {
				wantVals = append(wantVals, fmt.Sprintf("a%d", j))
			}
		}
		def := "<% let f = fn(" + strings.Join(pn, ", ") + ") {\n" + fPrint(body, pn, "  ") + "} %>"
		call := "f(" + strings.Join(argSrc, ", ") + ")"
		// how the result is used
		use := r.Intn(12)
		var tmpl, exp, useName string
		switch use {
		case 0:
			useName, tmpl, exp = "emit", "<%= "+call+" %>", xRender(want)
		case 1:
			useName, tmpl = "if", "<%= if ("+call+") { %>T<% } else { %>F<% } %>"
			exp = map[bool]string{true: "T", false: "F"}[c16Truthy(want)]
		case 2:
			useName, tmpl = "not", "<%= !"+call+" %>"
			exp = fmt.Sprint(!c16Truthy(want))
		case 3:
			useName, tmpl = "and", "<%= "+call+" && true %>"
			exp = fmt.Sprint(c16Truthy(want))
		case 4:
			useName = "compare"
			k := g.consts[r.Intn(len(g.consts))]
			tmpl = "<%= " + call + " == " + (&fExpr{kind: "const", c: k}).src(nil) + " %>"
			exp = fmt.Sprint(want == k)
		case 5:
			useName, tmpl, exp = "concat", "<%= \"s:\" + "+call+" %>", "s:"+fmt.Sprint(want)
		case 6:
			useName = "add"
			if wi, isInt := want.(int); isInt {
				tmpl, exp = "<%= "+call+" + 1 %>", fmt.Sprint(wi+1)
			} else if ws, isStr := want.(string); isStr {
				tmpl, exp = "<%= "+call+" + \"z\" %>", xRender(ws+"z")
			}
		case 7:
			useName, tmpl, exp = "go-helper-arg", "<%= ident("+call+") %>", xRender(want)
		case 8:
			useName, tmpl, exp = "userfn-arg", "<% let g = fn(x) { return x } %><%= g("+call+") %>", xRender(want)
		case 9:
			useName, tmpl, exp = "let-then-use", "<% let res = "+call+" %>-<%= res %>", "-"+xRender(want)
		case 10:
			useName = "index"
			if wi, isInt := want.(int); isInt && wi >= 0 && wi < 10 {
				tmpl, exp = "<%= xs["+call+"] %>", fmt.Sprintf("x%d", wi)
			}
		case 11:
			useName, tmpl, exp = "in-block", "<%= if (true) { %>[<%= "+call+" %>]<% } %>", "["+xRender(want)+"]"
		}
		if tmpl == "" {
			useName, tmpl, exp = "emit", "<%= "+call+" %>", xRender(want)
		}
		full := callerLets + def + tmpl
		if !b.Begin(full) {
			continue
		}
		env := &c16Env{}
		res := render(b, full, c16Ctx(env))
		if i%5 == 0 {
			renderAgain(b, full, func() *plush.Context { return c16Ctx(&c16Env{}) }, res, "user-function")
		}
		if !ok || !returned {
			// the chain compares values of different types somewhere: not judged
			b.Abstain()
			continue
		}
		b.Count("use:" + useName)
		b.Count(fmt.Sprintf("params:%d", g.np))
		b.NonTrivialStr(full)
		if res.Pan != nil {
			continue
		}
		if res.Err != nil {
			b.Violate("call-rejected|"+useName+"|"+core.ErrClass(res.Err), fmt.Sprintf("reference value %#v; engine error %v", want, res.Err))
			continue
		}
		if res.Out != exp {
			b.Violate("wrong-call-value|"+useName, fmt.Sprintf("arguments %v, reference value %#v → expected output %q, got %q", args, want, exp, res.Out))
			continue
		}
		if strings.Join(env.ticks, ",") != strings.Join(wantTicks, ",") {
			b.Violate("statements-after-return|"+useName, fmt.Sprintf("reference executed ticks %v, engine %v", wantTicks, env.ticks))
			continue
		}
		if strings.Join(env.vals, ",") != strings.Join(wantVals, ",") {
			b.Violate("argument-evaluation|"+useName, fmt.Sprintf("arguments must be evaluated once, in order %v; engine %v", wantVals, env.vals))
		}
		if i < 2 {
			b.Sample(map[string]any{"template": full, "expected": exp})
		}
	}

	// higher-order and recursive use: fixed programs with computed expectations
	fixed := []struct{ name, t, want string }{
		{"pass-function", `<% let twice = fn(g, x) { return g(g(x)) } %><% let inc = fn(n) { return n + 1 } %><%= twice(inc, 5) %>`, "7"},
		{"function-in-hash", `<% let inc = fn(n) { return n + 1 } %><% let h = {k: inc} %><% let g = h["k"] %><%= g(1) %>`, "2"},
		{"function-in-array", `<% let inc = fn(n) { return n + 1 } %><% let a = [inc] %><% let g = a[0] %><%= g(41) %>`, "42"},
		{"return-function", `<% let mk = fn() { return fn(x) { return x + 10 } } %><% let g = mk() %><%= g(1) %>`, "11"},
		{"call-through-parameter", `<% let ap = fn(g, a, b) { return g(a, b) } %><% let cat = fn(x, y) { return x + y } %><%= ap(cat, "a", "b") %>`, "ab"},
		{"shadowed-names", `<% let a = "A" %><% let b = "B" %><% let f = fn(a, b) { return a + b } %><%= f(b, a) %>|<%= a %><%= b %>`, "BA|AB"},
		{"go-helper-arg-fn", `<% let f = fn(a) { return a } %><%= ident(f("v")) %>`, "v"},
		{"two-functions-through-one-parameter", `<% let ap = fn(g, x) { return g(x) } %><% let inc = fn(n) { return n + 1 } %><% let dbl = fn(n) { return n * 2 } %><%= ap(inc, 10) %>|<%= ap(dbl, 10) %>|<%= ap(inc, 1) %>`, "11|20|2"},
		{"two-functions-through-one-parameter-in-loop", `<% let ap = fn(g, x) { return g(x) } %><% let inc = fn(n) { return n + 1 } %><% let dbl = fn(n) { return n * 2 } %><%= for (h) in [inc, dbl, inc] { %><%= ap(h, 5) %>,<% } %>`, "6,10,6,"},
		{"same-function-nested-in-second-argument", `<% let pick = fn(a, b) { if (a > b) { return a } return b } %><%= pick(9, pick(2, 3)) %>|<%= pick(pick(2, 3), 9) %>|<%= pick(1, pick(2, pick(7, 3))) %>`, "9|9|7"},
		{"same-function-nested-keeps-first-argument", `<% let first = fn(a, b) { return a } %><%= first("x", first("y", "z")) %>`, "x"},
		{"nil-argument-shadows-outer-name", `<% let p = "outer" %><% let f = fn(p) { if (p) { return "saw:" + p } return "nil" } %><%= f(nil) %>|<%= f(mm["absent"]) %>|<%= f("x") %>|<%= p %>`, "nil|nil|saw:x|outer"},
		{"nil-argument-in-nested-call", `<% let q = "Q" %><% let g = fn(q) { return q == nil } %><% let f = fn(q) { return g(nil) } %><%= f("a") %>|<%= g(q) %>`, "true|false"},
		{"body-assigns-to-its-parameter", `<% let n = 5 %><% let dec = fn(n) { n = n - 1
 return n } %><%= dec(n) %>/<%= n %>/<%= dec(n) %>/<%= n %>`, "4/5/4/5"},
		{"recursive-body-assigns-to-its-parameter", `<% let nest = fn(depth) { if (depth > 3) { return "" }
 let me = depth
 depth = depth + 1
 return "(" + me + nest(depth) + ")" } %><%= nest(1) %>`, "(1(2(3)))"},
		{"argument-named-like-the-parameter", `<% let x = "caller" %><% let show = fn(x) { return "[" + x + "]" } %><%= show(x) %><%= show("lit") %><%= show(x) %>`, "[caller][lit][caller]"},
		{"body-let-shadows-parameter", `<% let f = fn(a) { let a = a + 1
 return a } %><% let a = 10 %><%= f(a) %>,<%= a %>,<%= f(1) %>`, "11,10,2"},
		{"rebinding-a-function-name", `<% let f = fn(n) { return n + 1 } %><%= f(1) %><% let f = fn(n) { return n + 100 } %>|<%= f(1) %>`, "2|101"},
		// an argument reaches the parameter with its value unchanged: its Go type included
		{"arguments-keep-their-type", `<% let id = fn(x) { return x } %><%= id(dur) %>|<%= id(lvl) %>|<%= id(f32) %>|<%= wantsDur(id(dur)) %>|<%= id(i8) + id(i8) %>`, "1.5s|high|0.1|1.5s|14"},
		// the value of a call is a value like any other: a path may go on after it
		{"path-after-the-call", `<% let same = fn(x) { return x } %><%= same(rec).Name %>|<%= same(rec).Next.Name %>|<%= same(rec).Label() %>|<%= same(rec).Tags[1] %>|<%= len(same(rec).Tags) %>`, "r|n|L:r|t1|2"},
		{"path-after-the-call-of-a-selecting-function", `<% let nth = fn(i) { return recs[i] } %><%= nth(1).Name %>|<%= nth(0).Name %>|<%= nth(1).Add(nth(0).N, 1) %>`, "r1|r0|8"},
		// the returned value comes back as it is, whatever its shape: arrays of no, one or nested elements
		{"returns-one-element-array", `<% let one = fn(x) { return [x] } %><%= len(one(5)) %>|<%= one(5)[0] %>|<% let o = one("q") %><%= for (e) in o { %>(<%= e %>)<% } %>`, "1|5|(q)"},
		{"returns-empty-array", `<% let none = fn() { return [] } %><%= len(none()) %>|<%= none() == nil %>`, "0|false"},
		{"returns-nested-arrays", `<% let pairs = fn(a, b) { return [[a, b], [b, a]] } %><%= len(pairs(1, 2)) %>|<%= len(pairs(1, 2)[0]) %>|<%= pairs(1, 2)[1][0] %>`, "2|2|2"},
		// calls in the argument lists of calls, evaluated again and again: every call has arguments of its own
		{"nested-calls-in-arguments-in-a-loop", `<% let sub = fn(a, b) { return a - b } %><% let twice = fn(x) { return x + x } %><%= for (i) in [1, 2, 3] { %><%= sub(10, twice(i)) %>,<%= sub(twice(i), twice(twice(i))) %>;<% } %>`, "8,-2;6,-4;4,-6;"},
		{"nested-calls-in-arguments-twice", `<% let sub = fn(a, b) { return a - b } %><% let twice = fn(x) { return x + x } %><% let g = fn(n) { return sub(100, sub(twice(n), 1)) } %><%= g(1) %>|<%= g(1) %>|<%= g(2) %>|<%= sub(sub(9, 1), sub(3, twice(1))) %>`, "99|99|97|7"},
		{"recursive-list-builder", `<% let upto = fn(n) { if (n == 0) { return [] } return upto(n - 1) + n } %><%= len(upto(3)) %>|<%= upto(3) %>`, "3|123"},
		{"identity-on-go-slices", `<% let id = fn(x) { return x } %><%= len(id(one1)) %>|<%= len(id(nested2)) %>|<%= len(id(nested2)[0]) %>`, "1|2|2"},
		{"returns-array-from-inside-a-block", `<% let wrap = fn(x) { if (true) { return [x, [x]] } } %><%= len(wrap(1)) %>|<%= len(wrap(1)[1]) %>`, "2|1"},
		// every call starts from a fresh scope: what one call bound is not there in the next
		{"local-of-an-earlier-call-is-gone", `<% let sign = fn(n) { if (n < 0) { let s = "neg" } if (s) { return s } return "non-neg" } %><%= sign(0 - 5) %>,<%= sign(5) %>,<%= sign(0 - 1) %>,<%= sign(0) %>`, "neg,non-neg,neg,non-neg"},
		{"local-of-an-earlier-call-is-gone-in-a-loop", `<% let sign = fn(n) { if (n < 0) { let s = "neg" } if (s) { return s } return "non-neg" } %><%= for (x) in [0 - 5, 5, 0 - 1, 0] { %><%= sign(x) %>,<% } %>`, "neg,non-neg,neg,non-neg,"},
		{"local-of-an-earlier-call-is-gone-in-recursion", `<% let walk = fn(n) { if (n == 0) { let leaf = "L" } if (leaf) { return leaf } return "(" + walk(n - 1) + walk(n - 1) + ")" } %><%= walk(2) %>`, "((LL)(LL))"},
		{"parameter-of-an-earlier-call-is-gone", `<% let opt = fn(a) { if (a) { return "a=" + a } return "none" } %><% let none = fn() { if (a) { return "leaked " + a } return "clean" } %><%= opt("x") %>|<%= none() %>|<%= opt(nil) %>|<%= opt("y") %>|<%= none() %>`, "a=x|clean|none|a=y|clean"},
		{"assignment-to-a-local-of-an-earlier-call", `<% let cnt = fn(step) { let c = 0
 c = c + step
 return c } %><%= cnt(1) %><%= cnt(2) %><%= cnt(1) %>`, "121"},
		// calling the result of a call / of an index directly: what the callee expression looks like
		// (dots in string or float literals, in keys, in paths) must not matter
		{"call-result-called-directly", `<% let mk = fn(a) { return fn(x) { return x + 10 } } %><%= mk("ab")(1) %>|<%= mk("a.b")(1) %>|<%= mk(1.5)(2) %>|<%= mk("a.b.c")(3) %>`, "11|11|12|13"},
		{"hash-element-called-directly", `<% let inc = fn(n) { return n + 1 } %><% let h = {"k": inc, "a.b": inc, "1.5": inc} %><%= h["k"](1) %>|<%= h["a.b"](2) %>|<%= h["1.5"](3) %>`, "2|3|4"},
		{"array-element-called-directly", `<% let inc = fn(n) { return n + 1 } %><% let a = [inc, inc] %><%= a[0](1) %>|<%= a[3 - 2](2) %>`, "2|3"},
		{"call-result-called-directly-with-path-argument", `<% let mk = fn(a) { return fn(x) { return x + 10 } } %><%= mk(rec.Name)(1) %>|<%= mk(rec.Next.Name)(rec.N) %>`, "11|17"},
		{"chain-of-calls", `<% let one = fn() { return 1 } %><% let mk = fn() { return one } %><%= mk()() %>|<%= len("" + mk()()) %>`, "1|1"},
		{"function-values-in-a-hash-called-in-turn", `<% let a = fn(n) { return "a" + n } %><% let b = fn(n) { return "b" + n } %><% let h = {x: a, y: b} %><% let g = h["x"] %><%= g(1) %><% g = h["y"] %><%= g(2) %>`, "a1b2"},
	}
	for d := 0; d <= 12; d++ {
		fact := 1
		for k := 2; k <= d; k++ {
			fact *= k
		}
		fixed = append(fixed, struct{ name, t, want string }{"recursion-fact", fmt.Sprintf(`<%% let fact = fn(n) { if (n < 2) { return 1 } return n * fact(n - 1) } %%><%%= fact(%d) %%>`, d), fmt.Sprint(fact)})
		fa, fb := 0, 1
		for k := 0; k < d; k++ {
			fa, fb = fb, fa+fb
		}
		fixed = append(fixed, struct{ name, t, want string }{"recursion-fib", fmt.Sprintf(`<%% let fib = fn(n) { if (n < 2) { return n } return fib(n - 1) + fib(n - 2) } %%><%%= fib(%d) %%>`, d), fmt.Sprint(fa)})
		cd := ""
		for k := d; k > 0; k-- {
			cd += fmt.Sprint(k) + ","
		}
		fixed = append(fixed, struct{ name, t, want string }{"recursion-countdown", fmt.Sprintf(`<%% let cd = fn(n) { if (n == 0) { return "" } return n + "," + cd(n - 1) } %%><%%= cd("" + %d) %%>`, d), ""})
		fixed = append(fixed, struct{ name, t, want string }{"recursion-sum", fmt.Sprintf(`<%% let sum = fn(n) { if (n == 0) { return 0 } return n + sum(n - 1) } %%><%%= sum(%d) %%>`, d), fmt.Sprint(d * (d + 1) / 2)})
		_ = cd
	}
	for fi, f := range fixed {
		if !b.Mine(int64(fi)) || f.name == "recursion-countdown" {
			continue
		}
		if !b.Begin(f.t) {
			continue
		}
		res := render(b, f.t, c16Ctx(&c16Env{}))
		b.Count("fixed:" + f.name)
		b.NonTrivialStr(f.t)
		if res.Pan != nil {
			continue
		}
		if res.Err != nil {
			b.Violate("first-class-or-recursive-use-rejected|"+f.name+"|"+core.ErrClass(res.Err), fmt.Sprintf("want %q, got error %v", f.want, res.Err))
		} else if res.Out != f.want {
			b.Violate("wrong-call-value|"+f.name, fmt.Sprintf("want %q, got %q", f.want, res.Out))
		}
	}
}

func init() {
	core.Register(&core.Prop{
		ID:      "C16",
		Level:   "exploration",
		Rule:    "random functions of 0-4 parameters whose bodies are nested if / else-if / else decision chains over the parameters (comparisons with constants and each other) with returns, ticks after returns and fall-through; called with argument tuples made of constants, caller variables named like the callee's parameters (swapped / reversed orders) and recorded arguments; the result is used in 12 ways (emit, if, !, &&, ==, concatenation, addition, Go-helper argument, user-function argument, let then use, index, inside a block). Oracle: a reference interpreter of the decision chain gives the value; expected output per use; tick trace (nothing after the taken return runs) and argument trace (once, in order). Plus fixed higher-order programs (function passed, stored in hash/array, returned, called through a parameter) and recursion (fact, fib, sum to depth 12). Non-trivial = judged call, distinct by template hash.",
		Assume:  []string{"chains that compare values of different types are executed but not judged", "bodies emitting literal text before a return and return inside a for inside a function are not generated (abstentions of DESIGN.md §5 C16)"},
		Batches: batchesQT(8, 32),
		Run:     c16Run,
	})
}
