package props

import (
	"fmt"
	"regexp"
	"strings"

	"verifharness/internal/core"
)

// C18 — layout inside code tags is insignificant. Pure metamorphic relation:
// every re-layout of a program's token list renders like the canonical layout.

func isWordy(c byte) bool {
	return c >= 'a' && c <= 'z' || c >= 'A' && c <= 'Z' || c >= '0' && c <= '9' || c == '_' || c == '-' || c == '.'
}

// needSpace says whether tokens a and b may not be glued together.
func needSpace(a, b string) bool {
	if a == "" || b == "" {
		return false
	}
	la, fb := a[len(a)-1], b[0]
	if isWordy(la) && isWordy(fb) {
		return true
	}
	// '-' and '.' next to a letter or digit become part of the identifier / number
	if (la == '-' || la == '.' || fb == '-' || fb == '.') && (isWordy(la) || isWordy(fb)) {
		return true
	}
	// do not create a different token out of two (==, !=, <=, >=, &&, ||, ~=, <%, %>)
	switch string([]byte{la, fb}) {
	case "==", "!=", "<=", ">=", "&&", "||", "~=", "<%", "%>", "=>", "<<", ">>", "!!":
		return la != '!' || fb != '!'
	}
	return false
}

var c18Seps = []string{" ", " ", "\t", "\n", "\r\n", "  ", " \n ", "\n\n", " # note\n", "\n# a comment with \"quote\" and %\n", "\t \t", " # one\n # two\n", "\n# a\n\n# b\n# c\n", " # crlf one\r\n# crlf two\r\n", " #\n", " # it's\n", "\n# 'x\n"}

func gap(r *core.Rng, a, b string, allowGlue bool) string {
	if allowGlue && !needSpace(a, b) && r.Chance(1, 3) {
		return ""
	}
	s := c18Seps[r.Intn(len(c18Seps))]
	if strings.HasPrefix(s, "#") {
		s = " " + s
	}
	return s
}

// relayout prints the program with random separators, merged tags and comment tags.
func (p *pProg) relayout(r *core.Rng) (string, map[string]bool) {
	used := map[string]bool{}
	var sb strings.Builder
	inTag := false
	var lastTok string
	lastSimple := false
	closeTag := func() {
		if inTag {
			g := gap(r, lastTok, "%>", true)
			if strings.Contains(g, "#") {
				used["line-comment"] = true
			}
			sb.WriteString(g + "%>")
			inTag = false
		}
	}
	commentTag := func() {
		if r.Chance(1, 6) {
			sb.WriteString("<%#" + pick(r, []string{" note ", "", " multi\nline ", " # hash \"q\" ", " let x = 1 ", " it's the loop's end ", " don't ", " `tick and 'single ", " {([ "}) + "%>")
			used["comment-tag"] = true
		}
	}
	for i, u := range p.units {
		if u.toks == nil {
			closeTag()
			commentTag()
			sb.WriteString(u.text)
			continue
		}
		merged := false
		if inTag && u.glueOK && u.open == "<%" && r.Chance(1, 2) {
			// merge with the previous tag: a statement separator instead of %><%
			seps := []string{"\n", " ", "\n\t", " \n"}
			if lastSimple {
				seps = append(seps, ";", " ; ", ";\n", "\n")
			}
			s := seps[r.Intn(len(seps))]
			if needSpace(lastTok, u.toks[0]) && strings.TrimSpace(s) != "" && !strings.ContainsAny(s, " \n\t") {
				s += " "
			}
			if s == ";" && needSpace(";", u.toks[0]) {
				s = "; "
			}
			sb.WriteString(s)
			lastTok = ";"
			merged = true
			used["merged-tags"] = true
			if i > 0 && p.units[i-1].toks != nil && len(p.units[i-1].toks) > 0 && p.units[i-1].toks[len(p.units[i-1].toks)-1] == "}" {
				used["statement-after-closing-brace-in-same-tag"] = true
			}
		}
		if !merged {
			closeTag()
			commentTag()
			sb.WriteString(u.open)
			lastTok = u.open
			inTag = true
			// whitespace after the opener; never "<%#"
			g := gap(r, "", u.toks[0], true)
			if g == "" && (strings.HasPrefix(u.toks[0], "#") || strings.HasPrefix(u.toks[0], "=")) {
				g = " "
			}
			if strings.HasPrefix(strings.TrimLeft(g, " \t\r\n"), "#") && strings.TrimLeft(g, " \t\r\n") == g {
				g = " " + g
			}
			sb.WriteString(g)
			lastTok = ""
		}
		for j, t := range u.toks {
			if j > 0 || merged {
				prev := lastTok
				if j > 0 {
					prev = u.toks[j-1]
				}
				if j > 0 {
					g := gap(r, prev, t, true)
					if g == "" && needSpace(prev, t) {
						g = " "
					}
					if strings.Contains(g, "#") {
						used["line-comment"] = true
					}
					if g != " " {
						used["separators"] = true
					}
					sb.WriteString(g)
				}
			}
			sb.WriteString(t)
			lastTok = t
		}
		lastSimple = u.simple
	}
	closeTag()
	return sb.String(), used
}

var reLinePrefix = regexp.MustCompile(`(?m)line \d+:`)

func normErr(err error) string {
	if err == nil {
		return ""
	}
	return reLinePrefix.ReplaceAllString(err.Error(), "line N:")
}

// c18Pairs: hand-written pairs of layouts of one program that the generator does not make: a
// ';' that ends an assignment in front of a statement starting with a bracket, and a template
// whose last tag is never closed, with and without white space before the end of the input.
func c18Pairs(b *core.B) {
	for _, pr := range [][2]string{
		{`<% let a = 1 %><% a = 3 %><% (up(cs)) %><%= a %>`, `<% let a = 1 %><% a = 3; (up(cs)) %><%= a %>`},
		{`<% let a = 1 %><% a = 3 %><% [up(cs)] %><%= a %>`, `<% let a = 1 %><% a = 3; [up(cs)] %><%= a %>`},
		{`<% let a = [1] %><% a[0] = 3 %><% (up(cs)) %><%= a %>`, `<% let a = [1] %><% a[0] = 3; (up(cs)) %><%= a %>`},
		{`<% let a = 1 %><%= if (true) { %><% a = 3 %><% (up(cs)) %><% } %><%= a %>`, `<% let a = 1 %><%= if (true) { a = 3; (up(cs)) } %><%= a %>`},
		{"x<%= up(cs) ", "x<%= up(cs)"},
		{"x<%= up(cs) \n", "x<%=up(cs)"},
		{"x<%= ci ", "x<%= ci"},
		{"x<%= xs[0] ", "x<%= xs[0]"},
		{"x<%= 5 ", "x<%=5"},
		{"x<% let q = 5 ", "x<% let q = 5"},
	} {
		if !b.Begin(pr[0] + "\n=====\n" + pr[1]) {
			continue
		}
		b.NonTrivialStr(pr[1])
		b.Count("layout:hand-written-pairs")
		r0, r1 := render(b, pr[0], progCtx(nil)), render(b, pr[1], progCtx(nil))
		if r0.Pan != nil || r1.Pan != nil {
			continue
		}
		if (r0.Err == nil) != (r1.Err == nil) || r0.Err == nil && r0.Out != r1.Out {
			b.Violate("layout-changes-output|hand-written-pair", fmt.Sprintf("%q: %s\n%q: %s", pr[0], r0, pr[1], r1))
		}
	}
}

func c18Run(b *core.B) {
	if b.Batch == 0 {
		c18Pairs(b)
	}
	r := b.Rng(1)
	nProg, nLay := 3000, 30
	if b.Tier == core.Thorough {
		nProg, nLay = 100000, 60
	}
	for i := 0; i < nProg/b.NBatches; i++ {
		p := genProgram(r, 2, nil)
		if p.features["for-over-map"] {
			// visiting order of a Go map is the one licensed variation; bodies are order-insensitive (literal text)
		}
		base := p.canonical()
		b0 := renderQuiet(base, progCtx(nil))
		if b0.Pan != nil {
			if b.Begin(base) {
				b.Violate(b0.Pan.Sig(), b0.Pan.Value)
			}
			continue
		}
		for l := 0; l < nLay; l++ {
			alt, used := p.relayout(r)
			if alt == base {
				continue
			}
			if !b.Begin(alt) {
				continue
			}
			res := render(b, alt, progCtx(nil))
			for f := range used {
				b.Count("layout:" + f)
			}
			b.NonTrivialStr(alt)
			if res.Pan != nil {
				continue
			}
			cls := c18Class(used)
			if (res.Err == nil) != (b0.Err == nil) {
				b.Violate("layout-changes-success|"+cls+"|"+core.ErrClass(res.Err)+core.ErrClass(b0.Err), fmt.Sprintf("canonical layout: %s\n   this layout: %s\ncanonical template: %q", b0, res, base))
			} else if res.Err != nil {
				if normErr(res.Err) != normErr(b0.Err) {
					b.Violate("layout-changes-error|"+cls, fmt.Sprintf("canonical: %q\n this: %q\ncanonical template: %q", b0.Err, res.Err, base))
				}
			} else if res.Out != b0.Out {
				b.Violate("layout-changes-output|"+cls, fmt.Sprintf("canonical output: %q\n   this output: %q\ncanonical template: %q", b0.Out, res.Out, base))
			}
		}
		for f := range p.features {
			b.Count("program:" + f)
		}
		if i < 2 {
			alt, _ := p.relayout(r)
			b.Sample(map[string]any{"canonical": base, "one_relayout": alt})
		}
	}
}

func c18Class(used map[string]bool) string {
	fs := []string{}
	for _, f := range []string{"statement-after-closing-brace-in-same-tag", "merged-tags", "line-comment", "comment-tag", "separators"} {
		if used[f] {
			fs = append(fs, f)
		}
	}
	if len(fs) == 0 {
		return "plain"
	}
	return fs[0]
}

func init() {
	core.Register(&core.Prop{
		ID:      "C18",
		Level:   "exploration",
		Rule:    "programs from the shared generator (let, assignment, index assignment, output tags, if/else-if/else, for over slices/iterators/maps with break/continue, function definitions and calls, helper blocks, contentFor/contentOf, hash and array literals, method/helper calls, occasional failing statements), kept as token lists in maximal-split form; baseline = canonical layout. Each program is re-laid out 30 (quick) / 60 (thorough) times: separators between any two tokens drawn from {space, tab, LF, CRLF, runs, # line comments ended by a newline, nothing where gluing is lexically safe}, <%# %> comment tags at statement boundaries, random merging of adjacent tags with newline / space / ';' separators (incl. statements directly after a closing brace), whitespace after openers and before %>. Oracle: output (or error modulo 'line N:') identical to the baseline's. Non-trivial = a re-layout that differs from the canonical text (distinct by hash).",
		Assume:  []string{"mandatory whitespace is kept between word tokens and where '-' or '.' would touch a letter or digit (the property's exception)", "'} else {' is never split; <%= only starts a tag", "for loops over Go maps have order-insensitive bodies", "no generated statement starts with '-', '(' or '[': after a merge such a statement would continue the expression before it (the grammar ends a statement only at ';' or '%>')"},
		Batches: batchesQT(16, 64),
		Run:     c18Run,
	})
}
