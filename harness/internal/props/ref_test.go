package props

// Unit tests of the reference models and oracle helpers, independent of plush:
// expected values are hand-computed from the README / property texts.

import (
	"math"
	"reflect"
	"testing"

	"verifharness/internal/core"
)

func TestLiteralScan(t *testing.T) {
	cases := []struct {
		in, out string
		ok      bool
	}{
		{"plain", "plain", true},
		{`a \<% b`, "a <% b", true},
		{`\<%= 1 %>`, "<%= 1 %>", true},
		{`a <% b`, "", false},       // live tag
		{`a \\<% b`, "", false},     // one backslash, then a live tag
		{`\<\<% x`, `\<<% x`, true}, // "\<" is plain text, the second backslash escapes the opener
		{`abc\<`, `abc\<`, true},
		{`a \\< b`, `a \\< b`, true},
		{`\<%\<%`, "<%<%", true},
		{`%> <`, `%> <`, true},
	}
	for _, c := range cases {
		out, ok := literalScan(c.in)
		if ok != c.ok || (ok && out != c.out) {
			t.Errorf("literalScan(%q) = %q,%v want %q,%v", c.in, out, ok, c.out, c.ok)
		}
	}
}

func leafOf(v interface{}) *xNode { return &xNode{leaf: &xLeaf{val: v}} }

func TestRefEval(t *testing.T) {
	bin := func(op string, l, r *xNode) *xNode { return &xNode{op: op, l: l, r: r} }
	unknown := &xNode{leaf: &xLeaf{unknown: true}}
	cases := []struct {
		n    *xNode
		want interface{}
		err  bool
	}{
		{bin("+", leafOf(1), bin("*", leafOf(2), leafOf(7))), 15, false},
		{bin("-", bin("-", leafOf(7), leafOf(2)), leafOf(1)), 4, false},
		{bin("/", leafOf(-7), leafOf(2)), -3, false}, // truncation
		{bin("/", leafOf(1), leafOf(0)), nil, true},
		{bin("/", leafOf(1.0), leafOf(0.0)), nil, true},
		{bin("+", leafOf(1), leafOf(2.5)), nil, true}, // mismatch
		{bin("+", leafOf("a"), leafOf(2.5)), "a2.5", false},
		{bin("+", leafOf("a"), leafOf(true)), "atrue", false},
		{bin("~=", leafOf("abc"), leafOf("^a")), true, false},
		{bin("~=", leafOf("abc"), leafOf("(")), nil, true},
		{bin("==", leafOf(nil), leafOf(nil)), true, false},
		{bin("!=", leafOf(nil), leafOf(1)), true, false},
		{bin("+", leafOf(nil), leafOf(1)), nil, true},
		{bin("&&", leafOf(false), bin("/", leafOf(1), leafOf(0))), false, false}, // short circuit
		{bin("||", leafOf(0), bin("/", leafOf(1), leafOf(0))), true, false},      // 0 is truthy
		{bin("&&", leafOf(""), leafOf(true)), false, false},
		{bin("==", unknown, leafOf(nil)), true, false},
		{bin("+", unknown, leafOf(1)), nil, true},
		{&xNode{op: "!", l: unknown}, true, false},
		{&xNode{op: "!", l: leafOf(0)}, false, false},
		{bin("<", leafOf("a"), leafOf("b")), true, false},
		{bin("-", leafOf("a"), leafOf("b")), nil, true},
		{bin("<", leafOf(true), leafOf(false)), nil, true},
		{bin("==", leafOf(true), leafOf(true)), true, false},
	}
	for i, c := range cases {
		var tr []string
		got, err := refEval(c.n, &tr)
		if (err != nil) != c.err || (!c.err && got != c.want) {
			t.Errorf("case %d: got %v,%v want %v,err=%v", i, got, err, c.want, c.err)
		}
	}
	// unspecified pairs are reported as such
	for _, n := range []*xNode{bin("==", leafOf("a"), leafOf(1)), bin("+", leafOf(true), leafOf(true)), bin("==", leafOf(true), leafOf(1)), bin("+", leafOf("a"), leafOf(nil))} {
		var tr []string
		if _, err := refEval(n, &tr); err != errUnspecified {
			t.Errorf("expected unspecified, got %v", err)
		}
	}
}

func TestMinimalParentheses(t *testing.T) {
	r := core.NewRng(1)
	l := func(s string) *xNode { return &xNode{leaf: &xLeaf{src: s}} }
	bin := func(op string, a, b *xNode) *xNode { return &xNode{op: op, l: a, r: b} }
	cases := []struct {
		n    *xNode
		want string
	}{
		{bin("-", bin("-", l("a"), l("b")), l("c")), "a - b - c"},
		{bin("-", l("a"), bin("-", l("b"), l("c"))), "a - (b - c)"},
		{bin("*", bin("+", l("a"), l("b")), l("c")), "(a + b) * c"},
		{bin("+", l("a"), bin("*", l("b"), l("c"))), "a + b * c"},
		{bin("&&", bin("||", l("a"), l("b")), l("c")), "a || b && c"},
		{bin("||", l("a"), bin("&&", l("b"), l("c"))), "a || (b && c)"},
		{bin("==", bin("<", l("a"), l("b")), l("c")), "a < b == c"},
		{&xNode{op: "!", l: bin("==", l("a"), l("b"))}, "!(a == b)"},
		{bin("==", &xNode{op: "!", l: l("a")}, l("b")), "!a == b"},
	}
	for _, c := range cases {
		if got := c.n.print(0, false, r); got != c.want {
			t.Errorf("print = %q want %q", got, c.want)
		}
	}
}

func TestLoopInterp(t *testing.T) {
	el := func(i int, v string) lElem { return lElem{k: string(rune('0' + i)), v: v, ki: i} }
	body := []lStmt{{kind: "text", text: "a"}, {kind: "ctl", cond: lCond{kind: "keq", n: 1}, act: "continue"}, {kind: "val"}, {kind: "ctl", cond: lCond{kind: "keq", n: 2}, act: "break"}, {kind: "text", text: ";"}}
	out := ""
	for i, v := range []string{"x", "y", "z", "w"} {
		o, s := loopBody(body, el(i, v), false)
		out += o
		if s == sigBreak {
			break
		}
	}
	if out != "ax;a"+"az" {
		t.Errorf("loop = %q", out)
	}
	// return contributes its value and ends the iteration
	o, s := loopBody([]lStmt{{kind: "text", text: "p"}, {kind: "retv", text: "v"}, {kind: "text", text: "never"}}, el(0, "V"), false)
	if o != "pV" || s != sigReturn {
		t.Errorf("return: %q %d", o, s)
	}
	// inner break is confined to the inner loop
	o, _ = loopBody([]lStmt{{kind: "inner", inner: []int{7, 8, 9}, body: []lStmt{{kind: "val"}, {kind: "ctl", cond: lCond{kind: "keq", n: 1}, act: "break"}}}, {kind: "text", text: "!"}}, el(0, "V"), false)
	if o != "78!" {
		t.Errorf("inner: %q", o)
	}
}

func TestCtxModel(t *testing.T) {
	root := &mCtx{data: map[string]string{"len": "BUILTIN"}}
	child := &mCtx{data: map[string]string{}, parent: root}
	root.data["len"] = "nil"
	if child.value("len") != "nil" {
		t.Error("user nil under a built-in name must win in descendants")
	}
	root.data["len"] = "1"
	if child.value("len") != "1" {
		t.Error("later Set on the parent must be visible in the child")
	}
	child.data["a"] = "2"
	if root.value("a") != "nil" {
		t.Error("Set on a child must not change the parent")
	}
}

func TestExpectSeq(t *testing.T) {
	if s, more := expectSeq(3, 6, false); !reflect.DeepEqual(s, []int{3, 4, 5, 6}) || more {
		t.Error("3..6")
	}
	if s, _ := expectSeq(4, 3, false); s != nil {
		t.Error("empty")
	}
	if s, more := expectSeq(math.MaxInt-1, math.MaxInt, false); !reflect.DeepEqual(s, []int{math.MaxInt - 1, math.MaxInt}) || more {
		t.Error("extreme")
	}
	if s, more := expectSeq(math.MinInt, 0, false); len(s) != 64 || !more || s[0] != math.MinInt {
		t.Error("long")
	}
}

func TestJSHazard(t *testing.T) {
	for _, ok := range []string{`a\nb`, `\"`, `\'`, `\u003C`, `abc`, `\\`, `\u2028`} {
		if why := jsUnescapedHazard(ok); why != "" {
			t.Errorf("%q flagged: %s", ok, why)
		}
	}
	for _, bad := range []string{"a\nb", `"`, `'`, "<", "a=b", "\r", " ", `\\"`, "&"} {
		if jsUnescapedHazard(bad) == "" {
			t.Errorf("%q not flagged", bad)
		}
	}
}

func TestModelFreeEscapeOracle(t *testing.T) {
	if c01ModelFree("a &lt; b &amp; &#39;x&#39; <b>trusted</b>", []string{"<b>trusted</b>"}) != "" {
		t.Error("clean output flagged")
	}
	for _, bad := range []string{"a < b", "a & b", "it's", `say "x"`, "&unknown;", "&lt"} {
		if c01ModelFree(bad, nil) == "" {
			t.Errorf("%q not flagged", bad)
		}
	}
}

func TestNeedsJS(t *testing.T) {
	cases := []struct {
		ct, name string
		want     bool
	}{
		{"application/javascript", "a.html", true},
		{"application/javascript", "a.js", false},
		{"application/javascript", "a", false},
		{"text/html", "a.html", false},
		{"", "a.html", false},
		// the extension is that of the last path element: a dot in a directory part is none
		{"application/javascript", "dir.x/a", false},
		{"application/javascript", "v1.2/part", false},
		{"application/javascript", "./part", false},
		{"application/javascript", "../shared/part", false},
		{"application/javascript", "admin.v2/part.js", false},
		{"application/javascript", "admin.v2/part.html", true}, // filepath.Ext semantics: extension of the last element
	}
	for _, c := range cases {
		if got := needsJS(c.ct, c.name); got != c.want {
			t.Errorf("needsJS(%q,%q)=%v", c.ct, c.name, got)
		}
	}
}

func TestNeedSpace(t *testing.T) {
	for _, c := range []struct {
		a, b string
		want bool
	}{{"a", "b", true}, {"a", "(", false}, {"a", "-", true}, {"-", "1", true}, {"1", "+", false}, {"=", "=", true}, {"<", "=", true}, {")", "{", false}, {"tt.Name", "+", false}, {"let", "x", true}, {"!", "(", false}, {"<", "%", true}} {
		if got := needSpace(c.a, c.b); got != c.want {
			t.Errorf("needSpace(%q,%q)=%v", c.a, c.b, got)
		}
	}
}
