package props

import (
	"fmt"
	"html/template"
	"reflect"
	"regexp"
	"strings"

	"github.com/gobuffalo/plush/v5"

	"verifharness/internal/core"
)

// C11 — path access equals Go navigation or fails; never another element.

type PLeaf struct{ S string }

type PNode struct {
	Name   string
	Tags   []string
	Attr   map[string]string
	Kids   []PNode
	PKids  []*PNode
	Next   *PNode
	Pair   [2]PLeaf
	ByKey  map[string]PNode
	ByNum  map[int]*PNode
	ByU8   map[uint8]string
	ByI8   map[int8]*PNode
	IKids  []interface{} // PNode values and untyped nils
	Any    interface{}
	hidden string
}

// All fixture methods are total.
func (n PNode) Self() PNode    { return n }
func (n *PNode) PSelf() *PNode { return n }
func (n PNode) Kid(i int) PNode {
	if i >= 0 && i < len(n.Kids) {
		return n.Kids[i]
	}
	return PNode{}
}
func (n PNode) GetTags() []string { return n.Tags }
func (n PNode) Label() string     { return "L(" + n.Name + ")" }
func (n *PNode) PLabel() string {
	if n == nil {
		return ""
	}
	return "PL(" + n.Name + ")"
}

// buildNode makes a tree in which every leaf string spells its own Go path.
func buildNode(r *core.Rng, path string, depth int) PNode {
	n := PNode{Name: path + ".Name", hidden: path + ".hidden", Any: path + ".Any"}
	n.Tags = []string{path + ".Tags[0]", path + ".Tags[1]"}
	n.Attr = map[string]string{"k0": path + `.Attr["k0"]`, "k1": path + `.Attr["k1"]`}
	n.Pair = [2]PLeaf{{path + ".Pair[0].S"}, {path + ".Pair[1].S"}}
	n.ByU8 = map[uint8]string{44: path + ".ByU8[44]", 5: path + ".ByU8[5]"}
	if depth <= 0 {
		return n
	}
	for i := 0; i < 2; i++ {
		n.Kids = append(n.Kids, buildNode(r, fmt.Sprintf("%s.Kids[%d]", path, i), depth-1))
	}
	for i := 0; i < 2; i++ {
		if r.Chance(1, 5) {
			n.PKids = append(n.PKids, nil)
			continue
		}
		c := buildNode(r, fmt.Sprintf("%s.PKids[%d]", path, i), depth-1)
		n.PKids = append(n.PKids, &c)
	}
	if !r.Chance(1, 4) {
		c := buildNode(r, path+".Next", depth-1)
		n.Next = &c
	}
	n.ByKey = map[string]PNode{}
	for _, k := range []string{"k0", "k1"} {
		if !r.Chance(1, 5) {
			n.ByKey[k] = buildNode(r, fmt.Sprintf("%s.ByKey[%q]", path, k), depth-1)
		}
	}
	n.IKids = []interface{}{buildNode(r, path+".IKids[0]", depth-1), nil}
	n.ByNum = map[int]*PNode{}
	if !r.Chance(1, 5) {
		c := buildNode(r, path+".ByNum[1]", depth-1)
		n.ByNum[1] = &c
	}
	if r.Chance(1, 6) {
		n.ByNum[2] = nil
	}
	n.ByI8 = map[int8]*PNode{}
	for _, k := range []int8{-56, 3} {
		c := buildNode(r, fmt.Sprintf("%s.ByI8[%d]", path, k), depth-1)
		n.ByI8[k] = &c
	}
	return n
}

// ---- steps --------------------------------------------------------------

type pStep struct {
	kind string // F I K M
	name string // field / method name
	src  string // source text appended to the path
	idx  int    // index / int key / method argument
	key  string // string key
	harg bool   // method has an int argument
	// narrow: an int index into a map keyed by a narrower integer type; a
	// successful lookup is not judged (whether 5 may address a uint8 key is
	// not settled by the property), a failing one must fail
	narrow bool
}

var (
	tNode   = reflect.TypeOf(PNode{})
	tPNode  = reflect.TypeOf(&PNode{})
	tString = reflect.TypeOf("")
)

// stepsFrom lists the type-graph transitions available from a static type.
func stepsFrom(t reflect.Type) []pStep {
	var out []pStep
	idxForms := func(i int) []string {
		switch i {
		case 0:
			return []string{"[0]", "[i0]"}
		case 1:
			return []string{"[1]", "[i1]", "[0 + 1]"}
		}
		return []string{fmt.Sprintf("[%d]", i), "[ibig]"}
	}
	switch {
	case t == tNode || t == tPNode:
		for _, f := range []string{"Name", "Tags", "Attr", "Kids", "PKids", "Next", "Pair", "ByKey", "ByNum", "ByU8", "ByI8", "IKids", "Any", "hidden", "Missing"} {
			out = append(out, pStep{kind: "F", name: f, src: "." + f})
		}
		for _, m := range []string{"Self", "PSelf", "GetTags", "Label", "PLabel", "Nope"} {
			out = append(out, pStep{kind: "M", name: m, src: "." + m + "()"})
		}
		for _, i := range []int{0, 1, 7} {
			out = append(out, pStep{kind: "M", name: "Kid", src: fmt.Sprintf(".Kid(%d)", i), idx: i, harg: true})
		}
		// arguments that mention the root variable (or a variable named like a
		// member) from inside the path: they must still see the outer value
		out = append(out, pStep{kind: "M", name: "Kid", src: ".Kid(pick(ROOT, 1))", idx: 1, harg: true},
			pStep{kind: "M", name: "Kid", src: ".Kid(pick(Kids, 0))", idx: 0, harg: true})
	case t.Kind() == reflect.Slice || t.Kind() == reflect.Array:
		for _, i := range []int{0, 1, 7} {
			for _, f := range idxForms(i) {
				out = append(out, pStep{kind: "I", src: f, idx: i})
			}
		}
		out = append(out, pStep{kind: "I", src: "[pick(ROOT, 1)]", idx: 1}, pStep{kind: "I", src: "[pick(Tags, 0)]", idx: 0})
	case t.Kind() == reflect.Map && t.Key().Kind() == reflect.String:
		out = append(out, pStep{kind: "K", src: `["k0"]`, key: "k0"}, pStep{kind: "K", src: `["k1"]`, key: "k1"}, pStep{kind: "K", src: "[key0]", key: "k0"}, pStep{kind: "K", src: `["zz"]`, key: "zz"}, pStep{kind: "K", src: `[pickS(ROOT, "k1")]`, key: "k1"})
	case t.Kind() == reflect.Map && t.Key().Kind() == reflect.Uint8:
		// an int index never addresses another key by wrapping around: 300 is not 44
		out = append(out, pStep{kind: "K", src: "[5]", idx: 5, narrow: true}, pStep{kind: "K", src: "[300]", idx: 300, narrow: true}, pStep{kind: "K", src: "[i300]", idx: 300, narrow: true}, pStep{kind: "K", src: "[7]", idx: 7, narrow: true}, pStep{kind: "K", src: "[0 - 212]", idx: -212, narrow: true})
	case t.Kind() == reflect.Map && t.Key().Kind() == reflect.Int8:
		out = append(out, pStep{kind: "K", src: "[3]", idx: 3, narrow: true}, pStep{kind: "K", src: "[200]", idx: 200, narrow: true}, pStep{kind: "K", src: "[i200]", idx: 200, narrow: true}, pStep{kind: "K", src: "[7]", idx: 7, narrow: true})
	case t.Kind() == reflect.Map && t.Key().Kind() == reflect.Int:
		out = append(out, pStep{kind: "K", src: "[1]", idx: 1}, pStep{kind: "K", src: "[i1]", idx: 1}, pStep{kind: "K", src: "[2]", idx: 2}, pStep{kind: "K", src: "[9]", idx: 9})
	case t == reflect.TypeOf(PLeaf{}):
		out = append(out, pStep{kind: "F", name: "S", src: ".S"})
	}
	return out
}

// stepType gives the static result type of a step (nil: navigation can not be typed further / fails).
func stepType(t reflect.Type, s pStep) reflect.Type {
	switch s.kind {
	case "F":
		if t.Kind() == reflect.Ptr {
			t = t.Elem()
		}
		f, ok := t.FieldByName(s.name)
		if !ok || f.PkgPath != "" {
			return nil
		}
		if f.Type.Kind() == reflect.Interface {
			return tString // Any holds a string
		}
		return f.Type
	case "I", "K":
		if t.Elem().Kind() == reflect.Interface {
			return tNode // IKids holds PNode values (and nils)
		}
		return t.Elem()
	case "M":
		m, ok := tPNode.MethodByName(s.name)
		if !ok {
			return nil
		}
		return m.Type.Out(0)
	}
	return nil
}

// pathNav walks the same steps over the real graph in Go.
func pathNav(root reflect.Value, steps []pStep) (reflect.Value, bool) {
	v := root
	for _, s := range steps {
		switch s.kind {
		case "F":
			if v.Kind() == reflect.Ptr {
				if v.IsNil() {
					return v, false
				}
				v = v.Elem()
			}
			if v.Kind() != reflect.Struct {
				return v, false
			}
			f, ok := v.Type().FieldByName(s.name)
			if !ok || f.PkgPath != "" {
				return v, false
			}
			v = v.FieldByName(s.name)
			if v.Kind() == reflect.Interface {
				if v.IsNil() {
					return v, false
				}
				v = v.Elem()
			}
		case "I":
			if v.Kind() != reflect.Slice && v.Kind() != reflect.Array {
				return v, false
			}
			if s.idx < 0 || s.idx >= v.Len() {
				return v, false
			}
			v = v.Index(s.idx)
			if v.Kind() == reflect.Interface {
				if v.IsNil() {
					return v, false
				}
				v = v.Elem()
			}
		case "K":
			if v.Kind() != reflect.Map {
				return v, false
			}
			var k reflect.Value
			switch v.Type().Key().Kind() {
			case reflect.String:
				k = reflect.ValueOf(s.key)
			case reflect.Uint8:
				if s.idx < 0 || s.idx > 255 {
					return v, false
				}
				k = reflect.ValueOf(uint8(s.idx))
			case reflect.Int8:
				if s.idx < -128 || s.idx > 127 {
					return v, false
				}
				k = reflect.ValueOf(int8(s.idx))
			default:
				k = reflect.ValueOf(s.idx)
			}
			e := v.MapIndex(k)
			if !e.IsValid() {
				return v, false
			}
			v = e
		case "M":
			var recv reflect.Value
			if v.Kind() == reflect.Ptr {
				if v.IsNil() {
					return v, false
				}
				recv = v
			} else {
				p := reflect.New(v.Type())
				p.Elem().Set(v)
				recv = p
			}
			m := recv.MethodByName(s.name)
			if !m.IsValid() {
				return v, false
			}
			args := []reflect.Value{}
			if s.harg {
				args = append(args, reflect.ValueOf(s.idx))
			}
			v = m.Call(args)[0]
		}
	}
	if v.Kind() == reflect.Ptr && v.IsNil() {
		return v, false
	}
	return v, true
}

type c11Path struct {
	rootName string
	steps    []pStep
}

func (p c11Path) src() string {
	var sb strings.Builder
	sb.WriteString(p.rootName)
	for _, s := range p.steps {
		sb.WriteString(strings.Replace(s.src, "ROOT", p.rootName, -1))
	}
	return sb.String()
}

func (p c11Path) shape() string {
	var sb strings.Builder
	for _, s := range p.steps {
		sb.WriteString(s.kind)
	}
	return sb.String()
}

type c11Root struct {
	name string
	typ  reflect.Type
}

var reLeafish = regexp.MustCompile(`(?:root|proot|nodes|nmap)[\w\[\]\."&#;]*\.(?:Name|Any|hidden|S\b)|(?:Tags|Attr)\[`)

func c11Ctx(g *c11Graph) *plush.Context {
	ctx := plush.NewContext()
	ctx.Set("root", g.root)
	ctx.Set("proot", &g.root)
	ctx.Set("nodes", g.nodes)
	ctx.Set("nmap", g.nmap)
	ctx.Set("i0", 0)
	ctx.Set("i1", 1)
	ctx.Set("ibig", 7)
	ctx.Set("i300", 300)
	ctx.Set("i200", 200)
	ctx.Set("key0", "k0")
	// variables named like members of the nodes, and helpers that tell whether
	// the variable they are handed is still the outer one
	ctx.Set("Kids", "outer-Kids")
	ctx.Set("Tags", "outer-Tags")
	outer := func(x interface{}) bool {
		switch v := x.(type) {
		case string:
			return v == "outer-Kids" || v == "outer-Tags"
		case PNode:
			return v.Name == g.root.Name
		case *PNode:
			return v == &g.root
		case []PNode:
			return len(v) == len(g.nodes) && len(v) > 0 && &v[0] == &g.nodes[0]
		case map[string]PNode:
			return reflect.ValueOf(v).Pointer() == reflect.ValueOf(g.nmap).Pointer()
		}
		return false
	}
	ctx.Set("pick", func(x interface{}, n int) int {
		if outer(x) {
			return n
		}
		return 99
	})
	ctx.Set("pickS", func(x interface{}, k string) string {
		if outer(x) {
			return k
		}
		return "clobbered"
	})
	return ctx
}

type c11Graph struct {
	root  PNode
	nodes []PNode
	nmap  map[string]PNode
}

func (g *c11Graph) rootValue(name string) reflect.Value {
	switch name {
	case "root":
		return reflect.ValueOf(g.root)
	case "proot":
		return reflect.ValueOf(&g.root)
	case "nodes":
		return reflect.ValueOf(g.nodes)
	}
	return reflect.ValueOf(g.nmap)
}

func c11Judge(b *core.B, g *c11Graph, p c11Path, use int) {
	src := p.src()
	var tmpl string
	switch use {
	case 0:
		tmpl = "[<%= " + src + " %>]"
	case 1:
		tmpl = "<% let got = " + src + " %>[<%= got %>]"
	case 2:
		tmpl = "[<%= if (" + src + ") { %><%= " + src + " %><% } %>]"
	case 3:
		tmpl = "[<%= for (e) in " + src + " { %>(<%= e %>)<% } %>]"
	case 4:
		// the path as the left operand of an operator
		tmpl = "[<%= " + src + " + \"|x\" %>]"
	}
	if !b.Begin(tmpl) {
		return
	}
	res := render(b, tmpl, c11Ctx(g))
	v, ok := pathNav(g.rootValue(p.rootName), p.steps)
	shape := p.shape()
	b.Count("use:" + []string{"output", "let-then-output", "if-condition", "loop-iterable", "left-operand"}[use])
	b.NonTrivialStr(tmpl)
	if res.Pan != nil {
		return
	}
	// expected
	want := ""
	judgeable := false
	if ok {
		for _, st := range p.steps {
			if st.narrow {
				b.Count("narrow-int-key-lookup-succeeds(not-judged)")
				b.Abstain()
				return
			}
		}
		switch use {
		case 3:
			if v.Kind() == reflect.Slice && v.Type().Elem().Kind() == reflect.String {
				judgeable = true
				for i := 0; i < v.Len(); i++ {
					want += "(" + xRender(v.Index(i).String()) + ")"
				}
			}
		case 4:
			if v.Kind() == reflect.String {
				judgeable = true
				want = xRender(v.String() + "|x")
			}
		default:
			if v.Kind() == reflect.String {
				judgeable = true
				want = xRender(v.String())
			}
		}
		if !judgeable {
			b.Count("valid-nonleaf(not-judged)")
			return
		}
		b.Count("nav:ok")
		if res.Err != nil {
			b.Violate("valid-rejected|"+c11ShapeClass(shape)+"|"+core.ErrClass(res.Err), fmt.Sprintf("Go navigation yields %q; engine error: %v (shape %s)", want, res.Err, shape))
			return
		}
		if res.Out == "["+want+"]" {
			return
		}
		if res.Out == "[]" && want != "" {
			b.Violate("valid-rendered-empty|"+c11ShapeClass(shape), fmt.Sprintf("Go navigation yields %q; engine rendered nothing (shape %s)", want, shape))
			return
		}
		b.Violate("wrong-value|"+c11ShapeClass(shape), fmt.Sprintf("Go navigation yields %q; engine rendered %q (shape %s)", want, res.Out, shape))
		return
	}
	b.Count("nav:fails")
	if res.Err != nil {
		return // failure reported as an error: fine
	}
	if res.Out != "[]" && !(use == 4 && res.Out == "[|x]") {
		if reLeafish.MatchString(res.Out) || strings.Contains(res.Out, "L(") {
			b.Violate("value-from-failed-path|"+c11ShapeClass(shape), fmt.Sprintf("Go navigation fails, yet the engine rendered %q (shape %s)", res.Out, shape))
		} else {
			b.Violate("output-from-failed-path|"+c11ShapeClass(shape), fmt.Sprintf("Go navigation fails, yet the engine rendered %q (shape %s)", res.Out, shape))
		}
	}
}

// c11ShapeClass folds a shape word into the classes used in signatures.
func c11ShapeClass(shape string) string {
	// collapse runs
	var sb strings.Builder
	var last byte
	for i := 0; i < len(shape); i++ {
		c := shape[i]
		if c == 'K' {
			c = 'I' // key and index steps behave alike
		}
		if c != last {
			sb.WriteByte(c)
		}
		last = c
	}
	return sb.String()
}

// QNode has PNode's member names at other positions (and other method sets):
// one path expression may be evaluated against either.
type QNode struct {
	Any  interface{}
	Tags []string
	Pad1 int
	Name string
	Next *QNode
	Attr map[string]string
}

func (q QNode) Label() string     { return "QL(" + q.Name + ")" }
func (q QNode) GetTags() []string { return q.Tags }
func (q *QNode) PLabel() string {
	if q == nil {
		return ""
	}
	return "QPL(" + q.Name + ")"
}

// c11MixedTypes: the same AST node navigates values of different struct types.
func c11MixedTypes(b *core.B) {
	p := PNode{Name: "p.Name", Tags: []string{"p.Tags[0]"}, Attr: map[string]string{"k0": "p.Attr"}, Next: &PNode{Name: "p.Next.Name"}}
	q := QNode{Name: "q.Name", Tags: []string{"q.Tags[0]"}, Attr: map[string]string{"k0": "q.Attr"}, Next: &QNode{Name: "q.Next.Name"}}
	mixed := []interface{}{p, q, &p, &q, q, p}
	names := "[p.Name][q.Name][p.Name][q.Name][q.Name][p.Name]"
	cases := []struct{ t, want string }{
		{"<%= for (m) in mixed { %>[<%= m.Name %>]<% } %>", names},
		{"<%= for (m) in mixed { %>[<%= m.Tags[0] %>]<% } %>", strings.Replace(names, ".Name", ".Tags[0]", -1)},
		{"<%= for (m) in mixed { %>[<%= m.Next.Name %>]<% } %>", strings.Replace(names, ".Name", ".Next.Name", -1)},
		{"<%= for (m) in mixed { %>[<%= m.Attr[\"k0\"] %>]<% } %>", strings.Replace(names, ".Name", ".Attr", -1)},
		{"<%= for (m) in mixed { %>[<%= m.Label() %>]<% } %>", "[L(p.Name)][QL(q.Name)][L(p.Name)][QL(q.Name)][QL(q.Name)][L(p.Name)]"},
		{"<%= for (m) in mixed { %>[<%= m.PLabel() %>]<% } %>", "[PL(p.Name)][QPL(q.Name)][PL(p.Name)][QPL(q.Name)][QPL(q.Name)][PL(p.Name)]"},
		{"<%= for (m) in mixed { %>[<%= m.GetTags()[0] %>]<% } %>", strings.Replace(names, ".Name", ".Tags[0]", -1)},
		{"<% let nm = fn(x) { return x.Name } %><%= nm(mixed[0]) %>|<%= nm(mixed[1]) %>|<%= nm(mixed[2]) %>|<%= nm(mixed[3]) %>", "p.Name|q.Name|p.Name|q.Name"},
		{"<%= for (i) in [0, 1, 0, 1] { %>[<%= mixed[i].Name %>]<% } %>", "[p.Name][q.Name][p.Name][q.Name]"},
	}
	for _, c := range cases {
		if !b.Begin("mixed types: " + c.t) {
			continue
		}
		ctx := plush.NewContext()
		ctx.Set("mixed", mixed)
		res := render(b, c.t, ctx)
		b.NonTrivialStr(c.t)
		b.Count("mixed-struct-types-through-one-node")
		if res.Pan != nil {
			continue
		}
		if res.Err != nil {
			b.Violate("valid-rejected|mixed-types|"+core.ErrClass(res.Err), fmt.Sprintf("want %q, got error %v", c.want, res.Err))
		} else if res.Out != c.want {
			b.Violate("wrong-value|mixed-types", fmt.Sprintf("want %q, got %q", c.want, res.Out))
		}
	}
	// distinct struct types of the same name (function-local) and without a name
	{
		t := "<%= for (m) in rows { %>[<%= m.Name %>/<%= m.ID %>]<% } %>"
		rows := []interface{}{c13RowA(), c13RowB(), struct{ A, Name, ID string }{"a", "anon1", "i1"}, struct{ ID, Name, A string }{"i2", "anon2", "a"}, c13RowB(), c13RowA()}
		want := "[nameA/idA][nameB/idB][anon1/i1][anon2/i2][nameB/idB][nameA/idA]"
		if b.Begin("same-named types: " + t) {
			ctx := plush.NewContext()
			ctx.Set("rows", rows)
			res := render(b, t, ctx)
			b.NonTrivialStr(t)
			b.Count("same-named-struct-types-through-one-node")
			if res.Pan == nil {
				if res.Err != nil {
					b.Violate("valid-rejected|mixed-types|"+core.ErrClass(res.Err), fmt.Sprintf("want %q, got error %v", want, res.Err))
				} else if res.Out != want {
					b.Violate("wrong-value|mixed-types|same-named", fmt.Sprintf("want %q, got %q", want, res.Out))
				}
			}
		}
	}
	// the same parsed template executed with data of one type, then the other
	for _, t := range []string{"<%= it.Name %>|<%= it.Tags[0] %>|<%= it.Next.Name %>|<%= it.Label() %>", "<%= items[0].Name %>|<%= items[0].GetTags()[0] %>"} {
		if !b.Begin("same template, two data types: " + t) {
			continue
		}
		b.NonTrivialStr(t, "2")
		tm, err := plush.NewTemplate(t)
		if err != nil {
			b.Violate("valid-rejected|mixed-types|"+core.ErrClass(err), err.Error())
			continue
		}
		var outs []string
		pan := core.Guard(func() {
			for _, v := range []interface{}{p, q, &q, &p, p} {
				ctx := plush.NewContext()
				ctx.Set("it", v)
				ctx.Set("items", []interface{}{v})
				s, err := tm.Exec(ctx)
				outs = append(outs, fmt.Sprintf("%s %v", s, err))
			}
		})
		if pan != nil {
			b.Violate(pan.Sig(), pan.Value)
			continue
		}
		wantP, wantQ := "p.Name|p.Tags[0]|p.Next.Name|L(p.Name) <nil>", "q.Name|q.Tags[0]|q.Next.Name|QL(q.Name) <nil>"
		if strings.HasPrefix(t, "<%= items") {
			wantP, wantQ = "p.Name|p.Tags[0] <nil>", "q.Name|q.Tags[0] <nil>"
		}
		want := []string{wantP, wantQ, wantQ, wantP, wantP}
		if fmt.Sprint(outs) != fmt.Sprint(want) {
			b.Violate("wrong-value|mixed-types|re-execution", fmt.Sprintf("want %q\n got %q", want, outs))
		}
	}
}

// Struct types that repeat a field name at several embedding depths. Go selects the
// shallowest one (the struct's own before a promoted one, whatever the order of
// declaration), and none when two are equally shallow.
type EBase struct{ Name, Only string }
type EOther struct{ Name, Other string }
type EOwnLast struct {
	EBase
	Name string
}
type EOwnFirst struct {
	Name string
	EBase
}
type EDeep3 struct{ Label, Deep string }
type EMid3 struct{ EDeep3 }
type ETop3 struct{ EMid3 }
type EMid2 struct{ Label string }
type ETop2 struct{ EMid2 }
type EDeepFirst struct {
	ETop3
	ETop2
}
type EShallowFirst struct {
	ETop2
	ETop3
}
type EAmbiguous struct {
	EBase
	EOther
}
type EPtrEmbed struct {
	*EBase
	Name string
}
type ENested struct {
	EOwnLast
	Only string
}

// c11EmbeddedFields: v.Name is the field Go selects for that name, or a failure.
func c11EmbeddedFields(b *core.B) {
	vals := []interface{}{
		EOwnLast{EBase{"EOwnLast.EBase.Name", "EOwnLast.EBase.Only"}, "EOwnLast.Name"},
		EOwnFirst{"EOwnFirst.Name", EBase{"EOwnFirst.EBase.Name", "EOwnFirst.EBase.Only"}},
		EDeepFirst{ETop3{EMid3{EDeep3{"EDeepFirst.ETop3.EMid3.EDeep3.Label", "EDeepFirst.Deep"}}}, ETop2{EMid2{"EDeepFirst.ETop2.EMid2.Label"}}},
		EShallowFirst{ETop2{EMid2{"EShallowFirst.ETop2.EMid2.Label"}}, ETop3{EMid3{EDeep3{"EShallowFirst.ETop3.EMid3.EDeep3.Label", "EShallowFirst.Deep"}}}},
		EAmbiguous{EBase{"EAmbiguous.EBase.Name", "EAmbiguous.Only"}, EOther{"EAmbiguous.EOther.Name", "EAmbiguous.Other"}},
		EPtrEmbed{&EBase{"EPtrEmbed.EBase.Name", "EPtrEmbed.EBase.Only"}, "EPtrEmbed.Name"},
		ENested{EOwnLast{EBase{"ENested.EOwnLast.EBase.Name", "ENested.EOwnLast.EBase.Only"}, "ENested.EOwnLast.Name"}, "ENested.Only"},
	}
	names := []string{"Name", "Only", "Other", "Label", "Deep"}
	r := b.Rng(0xC11E)
	for round := 0; round < 4; round++ {
		order := r.Perm(len(vals))
		for _, k := range order {
			v := vals[k]
			rv := reflect.ValueOf(v)
			pv := reflect.New(rv.Type())
			pv.Elem().Set(rv)
			for _, name := range names {
				for _, text := range []string{"<%= v.N %>", "<%= pv.N %>", "<%= vs[0].N %>", "<% let x = v %><%= x.N %>", "<%= v.N %>|<%= pv.N %>"} {
					src := strings.Replace(text, ".N", "."+name, -1)
					if !b.Begin(fmt.Sprintf("%T: %s", v, src)) {
						continue
					}
					want, ok := "", false
					if f, found := rv.Type().FieldByName(name); found {
						want, ok = rv.FieldByIndex(f.Index).String(), true
						if strings.Contains(text, "|") {
							want += "|" + want
						}
					}
					ctx := plush.NewContext()
					ctx.Set("v", v)
					ctx.Set("pv", pv.Interface())
					ctx.Set("vs", []interface{}{v})
					res := render(b, src, ctx)
					b.NonTrivialStr(fmt.Sprintf("%T", v), src)
					b.Count("embedded-field:" + map[bool]string{true: "selected", false: "none-or-ambiguous"}[ok])
					if res.Pan != nil {
						continue
					}
					if ok && (res.Err != nil || res.Out != want) {
						b.Violate("wrong-element|embedded-field-of-a-repeated-name", fmt.Sprintf("round %d: Go selects %q, got %s", round, want, res))
					} else if !ok && res.Err == nil && strings.Trim(res.Out, "|") != "" {
						b.Violate("wrong-element|embedded-field-that-Go-does-not-select", fmt.Sprintf("round %d: Go has no field %s here (missing or ambiguous), got %s", round, name, res))
					}
				}
			}
		}
	}
}

// c11VariableTails: a path whose later steps use variables (an index, a key, a method
// argument) names the element those variables select *now*: in every pass of a loop that
// changes them, and after every reassignment.
func c11VariableTails(b *core.B) {
	r := b.Rng(0xC117)
	root := buildNode(r, "root", 3)
	for i := range root.Kids {
		// make sure there is something to select on every level
		for len(root.Kids[i].Kids) < 2 {
			root.Kids[i].Kids = append(root.Kids[i].Kids, buildNode(r, fmt.Sprintf("root.Kids[%d].Kids[%d]", i, len(root.Kids[i].Kids)), 1))
		}
	}
	nodes := []PNode{buildNode(r, "nodes[0]", 2), buildNode(r, "nodes[1]", 2)}
	byKey := map[string]PNode{"k0": buildNode(r, `bk["k0"]`, 1), "k1": buildNode(r, `bk["k1"]`, 1)}
	keys := []string{"k0", "k1"}
	paths := []struct {
		src string
		nav func(j int) string
	}{
		{"root.Kids[j].Name", func(j int) string { return root.Kids[j].Name }},
		{"root.Kids[1].Kids[j].Name", func(j int) string { return root.Kids[1].Kids[j].Name }},
		{"root.Kids[j].Kids[1 - j].Name", func(j int) string { return root.Kids[j].Kids[1-j].Name }},
		{"root.Self().Kids[j].Tags[j]", func(j int) string { return root.Kids[j].Tags[j] }},
		{"root.Kid(j).Name", func(j int) string { return root.Kid(j).Name }},
		{"root.Kid(1).Kid(j).Label()", func(j int) string { return root.Kid(1).Kid(j).Label() }},
		{"nodes[j].Tags[1 - j]", func(j int) string { return nodes[j].Tags[1-j] }},
		{"nodes[j].Pair[j].S", func(j int) string { return nodes[j].Pair[j].S }},
		{"bk[keys[j]].Name", func(j int) string { return byKey[keys[j]].Name }},
		{"bk[keys[j]].Attr[keys[1 - j]]", func(j int) string { return byKey[keys[j]].Attr[keys[1-j]] }},
		{"nodes[j].Attr[keys[j]]", func(j int) string { return nodes[j].Attr[keys[j]] }},
	}
	seq := []int{0, 1, 1, 0, 1}
	for _, p := range paths {
		forms := []string{
			"<%= for (j) in [0, 1, 1, 0, 1] { %><%= P %>|<% } %>",
			"<% let j = 0 %><%= P %>|<% j = 1 %><%= P %>|<%= P %>|<% j = 0 %><%= P %>|<% j = 1 %><%= P %>|",
			"<% let f = fn(j) { return P } %><%= f(0) %>|<%= f(1) %>|<%= f(1) %>|<%= f(0) %>|<%= f(1) %>|",
			"<%= for (q) in [0, 1, 1, 0, 1] { %><% let j = q %><%= P %>|<% } %>",
		}
		want := ""
		for _, j := range seq {
			want += template.HTMLEscapeString(p.nav(j)) + "|"
		}
		for _, f := range forms {
			src := strings.Replace(f, "P", p.src, -1)
			if !b.Begin(src) {
				continue
			}
			ctx := plush.NewContext()
			ctx.Set("root", root)
			ctx.Set("nodes", nodes)
			ctx.Set("bk", byKey)
			ctx.Set("keys", keys)
			res := render(b, src, ctx)
			b.NonTrivialStr(src)
			b.Count("path-with-variable-tail")
			if res.Pan == nil && (res.Err != nil || res.Out != want) {
				b.Violate("wrong-element|path-with-variable-tail", fmt.Sprintf("Go navigation: %q\n       engine: %s", want, res))
			}
		}
	}
}

func c11Run(b *core.B) {
	if b.Batch == 0 {
		c11MixedTypes(b)
		c11EmbeddedFields(b)
		c11VariableTails(b)
	}
	r := b.Rng(1)
	nGraphs := 2
	if b.Tier == core.Thorough {
		nGraphs = 24
	}
	roots := []c11Root{{"root", tNode}, {"proot", tPNode}, {"nodes", reflect.TypeOf([]PNode{})}, {"nmap", reflect.TypeOf(map[string]PNode{})}}
	maxLen := 4
	var idx int64
	for gi := 0; gi < nGraphs; gi++ {
		gr := core.Derive(b.Seed, 0xC11, uint64(gi))
		g := &c11Graph{root: buildNode(gr, "root", 3)}
		g.nodes = []PNode{buildNode(gr, "nodes[0]", 2), buildNode(gr, "nodes[1]", 2)}
		g.nmap = map[string]PNode{"k0": buildNode(gr, `nmap["k0"]`, 2), "k1": buildNode(gr, `nmap["k1"]`, 2)}
		// exhaustive walks of the type graph up to maxLen steps
		var walk func(root c11Root, t reflect.Type, steps []pStep)
		walk = func(root c11Root, t reflect.Type, steps []pStep) {
			if len(steps) > 0 {
				idx++
				if b.Mine(idx) {
					p := c11Path{rootName: root.name, steps: append([]pStep{}, steps...)}
					terminal := t == nil || t == tString
					iterable := t != nil && t.Kind() == reflect.Slice && t.Elem().Kind() == reflect.String
					if terminal {
						u := int(idx % 4)
						if u == 3 {
							u = 4 // 3 is the loop-iterable use
						}
						c11Judge(b, g, p, u)
						b.Count("enumerated-leaf-paths")
					} else if iterable {
						c11Judge(b, g, p, 3)
					}
				}
			}
			if t == nil || t == tString || len(steps) >= maxLen {
				return
			}
			for _, s := range stepsFrom(t) {
				nt := stepType(t, s)
				walk(root, nt, append(steps, s))
				if nt == nil && (t == tNode || t == tPNode) && len(steps)+2 <= maxLen+1 {
					// navigation has failed here; whatever is appended must not bring a value back
					// (the receiver of an unknown method, say)
					for _, after := range []pStep{{kind: "F", name: "Name", src: ".Name"}, {kind: "M", name: "Label", src: ".Label()"}, {kind: "M", name: "PLabel", src: ".PLabel()"}, {kind: "F", name: "Tags", src: ".Tags"}} {
						idx++
						if b.Mine(idx) {
							p := c11Path{rootName: root.name, steps: append(append([]pStep{}, steps...), s, after)}
							use := int(idx % 3)
							if after.name == "Tags" {
								use = 3
							}
							c11Judge(b, g, p, use)
							b.Count("paths-continued-after-a-failing-step")
						}
					}
				}
			}
		}
		for _, root := range roots {
			walk(root, root.typ, nil)
		}
		// the same member indexed at several levels of one path, the innermost element nil
		ik := func(i int) pStep { return pStep{kind: "I", src: fmt.Sprintf("[%d]", i), idx: i} }
		fIK := pStep{kind: "F", name: "IKids", src: ".IKids"}
		fKids := pStep{kind: "F", name: "Kids", src: ".Kids"}
		fPK := pStep{kind: "F", name: "PKids", src: ".PKids"}
		name := pStep{kind: "F", name: "Name", src: ".Name"}
		for ti, steps := range [][]pStep{
			{fIK, ik(0), fIK, ik(0), fIK, ik(1), name}, {fIK, ik(0), fIK, ik(1), name}, {fIK, ik(1), name}, {fIK, ik(0), fIK, ik(0), name},
			{fKids, ik(0), fIK, ik(0), fIK, ik(1), name}, {fPK, ik(0), fPK, ik(1), fPK, ik(0), name}, {fPK, ik(1), fPK, ik(0), name}, {fKids, ik(1), fKids, ik(0), fIK, ik(1), name},
		} {
			for ui, use := range []int{0, 1, 2, 4} {
				idx++
				if b.Mine(idx) {
					c11Judge(b, g, c11Path{rootName: "root", steps: steps}, use)
					b.Count("repeated-member-paths")
					_, _ = ti, ui
				}
			}
		}
		// random longer walks
		n := 6000
		if b.Tier == core.Thorough {
			n = 400000
		}
		for i := 0; i < n/b.NBatches; i++ {
			root := roots[r.Intn(len(roots))]
			t := root.typ
			var steps []pStep
			L := r.Range(5, 8)
			for len(steps) < L && t != nil && t != tString {
				ss := stepsFrom(t)
				// prefer steps that stay navigable so that long valid paths occur
				s := ss[r.Intn(len(ss))]
				if r.Chance(3, 4) {
					for tries := 0; tries < 6; tries++ {
						if _, ok := pathNav(g.rootValue(root.name), append(append([]pStep{}, steps...), s)); ok {
							break
						}
						s = ss[r.Intn(len(ss))]
					}
				}
				steps = append(steps, s)
				t = stepType(t, s)
			}
			if t != nil && t != tString {
				// finish at a leaf
				if t == tNode || t == tPNode {
					steps = append(steps, pStep{kind: "F", name: "Name", src: ".Name"})
				} else {
					continue
				}
			}
			c11Judge(b, g, c11Path{rootName: root.name, steps: steps}, r.Intn(3))
			b.Count("random-long-paths")
		}
	}
}

func init() {
	core.Register(&core.Prop{
		ID:         "C11",
		Level:      "exploration",
		Rule:       "data graphs of one struct family (string, []string, map[string]string, []Node, []*Node, *Node, [2]Leaf, map[string]Node, map[int]*Node, interface, unexported field; value and pointer methods) in which every leaf string spells its own Go path, nil pointers and missing keys sprinkled in; paths = walks of the type graph from 4 roots (value, pointer, slice, map) over field / index (literal, variable, computed) / map key (literal, variable) / method steps incl. unknown, unexported, out-of-range and missing-key steps: exhaustive to length 4, random to length 8; used in an output tag, a let then output, an if condition, as the left operand of +, and as loop iterable. Oracle: the same steps walked in Go by reflection; success -> the rendered text must be that leaf; failure -> error or empty output. Non-trivial = every judged path (distinct by template hash).",
		Assume:     []string{"fixture methods are total; PLabel on a nil pointer returns the empty string so that both readings of 'nil pointer' agree", "paths ending in a non-leaf value (struct, map, slice of structs) are not judged in output position"},
		Batches:    batchesQT(16, 32),
		Run:        c11Run,
		Exhaustive: func(core.Tier) bool { return true },
	})
}
