package props

import (
	"errors"
	"fmt"
	"html/template"
	"math"
	"regexp"
	"strings"

	"github.com/gobuffalo/plush/v5"

	"verifharness/internal/core"
)

// C06 — operators, precedence and associativity vs. a reference evaluator.

type xLeaf struct {
	src     string
	val     interface{}
	unknown bool
}

type xNode struct {
	op   string // "" for leaf, "!" for prefix
	l, r *xNode
	leaf *xLeaf
	id   string // trace id for leaves
}

var errUnknownIdent = errors.New("unknown identifier")
var errUnspecified = errors.New("unspecified by the property")

func xPrec(op string) int {
	switch op {
	case "&&", "||":
		return 1
	case "==", "!=", "~=":
		return 2
	case "<", "<=", ">", ">=":
		return 3
	case "+", "-":
		return 4
	case "*", "/":
		return 5
	case "!":
		return 6
	}
	return 9
}

// refTruthy is the truth table of C07.
func refTruthy(v interface{}) bool {
	switch t := v.(type) {
	case nil:
		return false
	case bool:
		return t
	case string:
		return t != ""
	case template.HTML:
		return t != ""
	}
	return true
}

// refEval evaluates the tree per the documented semantics. The trace records
// the ids of evaluated leaves in order.
func refEval(n *xNode, trace *[]string) (interface{}, error) {
	if n.op == "" {
		if n.leaf.unknown {
			return nil, errUnknownIdent
		}
		if n.id != "" {
			*trace = append(*trace, n.id)
		}
		return n.leaf.val, nil
	}
	if n.op == "!" {
		v, err := refEval(n.l, trace)
		if err != nil && !(err == errUnknownIdent && n.l.op == "") {
			return nil, err
		}
		return !refTruthy(v), nil
	}
	tolerant := n.op == "==" || n.op == "!=" || n.op == "&&" || n.op == "||"
	// the tolerated fault is an unknown identifier that IS the operand, not one
	// somewhere inside it
	lv, err := refEval(n.l, trace)
	if err != nil {
		if !(tolerant && err == errUnknownIdent && n.l.op == "") {
			return nil, err
		}
		lv = nil
	}
	if n.op == "&&" && !refTruthy(lv) {
		return false, nil
	}
	if n.op == "||" && refTruthy(lv) {
		return true, nil
	}
	rv, err := refEval(n.r, trace)
	if err != nil {
		if !(tolerant && err == errUnknownIdent && n.r.op == "") {
			return nil, err
		}
		rv = nil
	}
	if n.op == "&&" || n.op == "||" {
		return refTruthy(rv), nil
	}
	return refApply(n.op, lv, rv)
}

var errMismatch = errors.New("operand type mismatch / unsupported operator")

func refApply(op string, l, r interface{}) (interface{}, error) {
	if l == nil || r == nil {
		switch op {
		case "==":
			return l == r, nil
		case "!=":
			return l != r, nil
		}
		if _, ok := l.(string); ok && op == "+" {
			return nil, errUnspecified // string + nil
		}
		return nil, errMismatch
	}
	switch a := l.(type) {
	case int:
		b, ok := r.(int)
		if !ok {
			return nil, errMismatch
		}
		switch op {
		case "+":
			return a + b, nil
		case "-":
			return a - b, nil
		case "*":
			return a * b, nil
		case "/":
			if b == 0 {
				return nil, errors.New("division by zero")
			}
			return a / b, nil
		case "<":
			return a < b, nil
		case "<=":
			return a <= b, nil
		case ">":
			return a > b, nil
		case ">=":
			return a >= b, nil
		case "==":
			return a == b, nil
		case "!=":
			return a != b, nil
		}
		return nil, errMismatch
	case float64:
		b, ok := r.(float64)
		if !ok {
			return nil, errMismatch
		}
		switch op {
		case "+":
			return a + b, nil
		case "-":
			return a - b, nil
		case "*":
			return a * b, nil
		case "/":
			if b == 0 {
				return nil, errors.New("division by zero")
			}
			return a / b, nil
		case "<":
			return a < b, nil
		case "<=":
			return a <= b, nil
		case ">":
			return a > b, nil
		case ">=":
			return a >= b, nil
		case "==":
			return a == b, nil
		case "!=":
			return a != b, nil
		}
		return nil, errMismatch
	case string:
		b, ok := r.(string)
		if !ok {
			if op == "+" {
				return a + fmt.Sprint(r), nil
			}
			switch op {
			case "-", "*", "/":
				return nil, errMismatch
			}
			return nil, errUnspecified // string compared with a non-string
		}
		switch op {
		case "+":
			return a + b, nil
		case "<":
			return a < b, nil
		case "<=":
			return a <= b, nil
		case ">":
			return a > b, nil
		case ">=":
			return a >= b, nil
		case "==":
			return a == b, nil
		case "!=":
			return a != b, nil
		case "~=":
			re, err := regexp.Compile(b)
			if err != nil {
				return nil, err
			}
			return re.MatchString(a), nil
		}
		return nil, errMismatch
	case bool:
		b, ok := r.(bool)
		switch op {
		case "==", "!=", "+":
			if !ok || op == "+" {
				return nil, errUnspecified
			}
			if op == "==" {
				return a == b, nil
			}
			return a != b, nil
		}
		return nil, errMismatch
	}
	return nil, errMismatch
}

func xRender(v interface{}) string {
	switch t := v.(type) {
	case nil:
		return ""
	case string:
		return template.HTMLEscapeString(t)
	}
	return fmt.Sprint(v)
}

// ---- printing -----------------------------------------------------------

func (n *xNode) leafSrc(wrap bool) string {
	if wrap && n.id != "" && !n.leaf.unknown {
		return "val(\"" + n.id + "\", " + n.leaf.src + ")"
	}
	return n.leaf.src
}

// mode 0: minimal parentheses, 1: random redundant, 2: full
func (n *xNode) print(mode int, wrap bool, r *core.Rng) string {
	if n.op == "" {
		s := n.leafSrc(wrap)
		if mode == 1 && r.Chance(1, 4) {
			return "(" + s + ")"
		}
		return s
	}
	if n.op == "!" {
		in := n.l.print(mode, wrap, r)
		if n.l.op != "" && n.l.op != "!" && !(mode == 2) {
			in = "(" + in + ")"
		} else if mode == 2 && n.l.op != "" {
			// full mode already parenthesises binary children
		}
		s := "!" + in
		if mode == 2 || (mode == 1 && r.Chance(1, 3)) {
			return "(" + s + ")"
		}
		return s
	}
	ls, rs := n.l.print(mode, wrap, r), n.r.print(mode, wrap, r)
	if mode != 2 {
		if n.l.op != "" && xPrec(n.l.op) < xPrec(n.op) {
			ls = "(" + ls + ")"
		} else if mode == 1 && n.l.op != "" && r.Chance(1, 3) && !strings.HasPrefix(ls, "(") {
			ls = "(" + ls + ")"
		}
		if n.r.op != "" && xPrec(n.r.op) <= xPrec(n.op) {
			rs = "(" + rs + ")"
		} else if mode == 1 && n.r.op != "" && r.Chance(1, 3) && !strings.HasPrefix(rs, "(") {
			rs = "(" + rs + ")"
		}
	}
	s := ls + " " + n.op + " " + rs
	if mode == 2 || (mode == 1 && r.Chance(1, 4)) {
		return "(" + s + ")"
	}
	return s
}

// ---- leaves -------------------------------------------------------------

var xLeaves = []xLeaf{
	{src: "1", val: 1}, {src: "2", val: 2}, {src: "7", val: 7}, {src: "0", val: 0},
	{src: "2.5", val: 2.5}, {src: ".5", val: 0.5},
	{src: `"a"`, val: "a"}, {src: `"b"`, val: "b"},
	{src: "true", val: true}, {src: "false", val: false}, {src: "nil", val: nil},
	{src: "neg", val: -7},
	// the pool above is enumerated exhaustively; the rest joins in random trees
	{src: "007", val: 7}, {src: "010", val: 10}, {src: "08", val: 8}, {src: "3.", val: 3.0}, {src: `""`, val: ""}, {src: "m1", val: -1}, {src: "maxi", val: math.MaxInt},
	{src: "f0", val: 0.0}, {src: "fneg", val: -2.5}, {src: "nope", unknown: true}, {src: `"a.*"`, val: "a.*"}, {src: `"("`, val: "("},
	// patterns whose only regular-expression syntax is a backslash escape, and subjects for them
	{src: `"a1"`, val: "a1"}, {src: `"foo bar"`, val: "foo bar"}, {src: `"\d"`, val: `\d`}, {src: `"^\w\d$"`, val: `^\w\d$`}, {src: `"\bbar"`, val: `\bbar`}, {src: `"\x61"`, val: `\x61`},
	// integers that arrive as int64 (database ids, time values) are integers like any other
	{src: "i64a", val: 5}, {src: "i64b", val: 3},
	{src: "fbig", val: 1.5e21}, {src: "fsmall", val: 0.00001}, {src: "1000000.0", val: 1000000.0}, {src: "fmil", val: 2.5e6},
}

const xCore = 12

var xOps = []string{"+", "-", "*", "/", "<", "<=", ">", ">=", "==", "!=", "~=", "&&", "||"}

type c06Env struct{ trace []string }

func c06Ctx(env *c06Env) *plush.Context {
	ctx := plush.NewContext()
	ctx.Set("neg", -7)
	ctx.Set("m1", -1)
	ctx.Set("maxi", math.MaxInt)
	ctx.Set("i64a", int64(5))
	ctx.Set("i64b", int64(3))
	ctx.Set("f0", 0.0)
	ctx.Set("fneg", -2.5)
	ctx.Set("fbig", 1.5e21)
	ctx.Set("fsmall", 0.00001)
	ctx.Set("fmil", 2.5e6)
	ctx.Set("val", func(id string, v interface{}) interface{} {
		env.trace = append(env.trace, id)
		return v
	})
	return ctx
}

func xClass(n *xNode) string {
	if n.op == "" {
		return "leaf"
	}
	if n.op == "!" {
		return "!(" + xClass(n.l) + ")"
	}
	lc, rc := "x", "x"
	if n.l.op != "" {
		lc = n.l.op
	}
	if n.r.op != "" {
		rc = n.r.op
	}
	return lc + " " + n.op + " " + rc
}

func kindOf(v interface{}) string {
	switch v.(type) {
	case nil:
		return "nil"
	case int:
		return "int"
	case float64:
		return "float"
	case string:
		return "string"
	case bool:
		return "bool"
	}
	return "?"
}

func (n *xNode) assignIDs(c *int) {
	if n.op == "" {
		*c++
		n.id = fmt.Sprintf("L%d", *c)
		return
	}
	n.l.assignIDs(c)
	if n.r != nil {
		n.r.assignIDs(c)
	}
}

func (n *xNode) topKinds() string {
	if n.op == "" || n.op == "!" {
		return ""
	}
	k := func(m *xNode) string {
		if m.op == "" {
			if m.leaf.unknown {
				return "unknown"
			}
			return kindOf(m.leaf.val)
		}
		return "expr"
	}
	return k(n.l) + n.op + k(n.r)
}

func c06Check(b *core.B, n *xNode, r *core.Rng) {
	cnt := 0
	n.assignIDs(&cnt)
	var refTrace []string
	want, werr := refEval(n, &refTrace)
	base := "<%= " + n.print(0, true, r) + " %>"
	if !b.Begin(base) {
		return
	}
	if werr == errUnspecified {
		b.Abstain()
		b.Count("abstained")
		// still executed: universal monitors
		env := &c06Env{}
		render(b, base, c06Ctx(env))
		return
	}
	b.Count("shape:" + xClass(n))
	var outs [3]R
	var traces [3][]string
	srcs := [3]string{base, "<%= " + n.print(1, true, r) + " %>", "<%= " + n.print(2, true, r) + " %>"}
	for m := 0; m < 3; m++ {
		env := &c06Env{}
		outs[m] = render(b, srcs[m], c06Ctx(env))
		traces[m] = env.trace
		if outs[m].Pan != nil {
			return
		}
	}
	// the value does not depend on the expression having been evaluated before:
	// one parsed template, executed twice
	// (printed without the recording wrappers, so that literal operands are literal)
	bare := "<%= " + n.print(0, false, r) + " %>"
	if t, err := plush.NewTemplate(bare); err == nil {
		for k := 0; k < 3; k++ {
			var o R
			o.Pan = core.Guard(func() { o.Out, o.Err = t.Exec(c06Ctx(&c06Env{})) })
			if o.Pan != nil {
				b.Violate(o.Pan.Sig(), o.Pan.Value)
				return
			}
			if (o.Err == nil) != (outs[0].Err == nil) || o.Out != outs[0].Out {
				b.ViolateIn("repeated-execution-differs|"+xClass(n), bare, fmt.Sprintf("fresh render of the wrapped form: %s\nexecution %d of one parsed template: %s", outs[0], k+1, o))
				return
			}
		}
	}
	b.NonTrivialStr(base)
	sigc := xClass(n)
	// metamorphic: the three printings agree
	for m := 1; m < 3; m++ {
		if (outs[m].Err == nil) != (outs[0].Err == nil) || outs[m].Out != outs[0].Out {
			b.ViolateIn("printings-disagree|"+sigc, srcs[0]+"   vs   "+srcs[m], fmt.Sprintf("minimal parentheses: %s\n%s parentheses: %s", outs[0], []string{"", "random", "full"}[m], outs[m]))
			return
		}
	}
	got := outs[0]
	if werr != nil {
		b.Count("expect:error")
		if got.Err == nil {
			b.Violate("error-expected|"+sigc+"|"+n.topKinds(), fmt.Sprintf("reference: error (%v); engine rendered %q", werr, got.Out))
		}
		return
	}
	b.Count("expect:" + kindOf(want))
	if got.Err != nil {
		b.Violate("valid-rejected|"+sigc+"|"+core.ErrClass(got.Err), fmt.Sprintf("reference value %v (%T); engine error %v", want, want, got.Err))
		return
	}
	if exp := xRender(want); got.Out != exp {
		b.Violate("wrong-value|"+sigc, fmt.Sprintf("reference %q, engine %q", exp, got.Out))
		return
	}
	for m := 0; m < 3; m++ {
		if strings.Join(traces[m], ",") != strings.Join(refTrace, ",") {
			b.ViolateIn("evaluation-order|"+sigc, srcs[m], fmt.Sprintf("reference trace %v, engine trace %v", refTrace, traces[m]))
			return
		}
	}
}

func c06SameNode(b *core.B, mine func() bool) {
	var vals []interface{}
	seen := map[string]bool{}
	for _, l := range xLeaves {
		k := fmt.Sprintf("%T:%v", l.val, l.val)
		if l.unknown || l.val == nil || seen[k] {
			continue
		}
		seen[k] = true
		vals = append(vals, l.val)
	}
	for oi, op := range xOps {
		if !mine() {
			continue
		}
		rr := core.Derive(b.Seed, 0xC06A, uint64(oi))
		src := "<%= a " + op + " b %>"
		if !b.Begin(src + "  (one parsed template, " + fmt.Sprint(len(vals)*len(vals)) + " operand pairs)") {
			continue
		}
		t, err := plush.NewTemplate(src)
		if err != nil {
			b.Violate("same-node|parse|"+op, err.Error())
			continue
		}
		type pr struct{ a, b interface{} }
		var prs []pr
		for _, x := range vals {
			for _, y := range vals {
				prs = append(prs, pr{x, y})
			}
		}
		for i := len(prs) - 1; i > 0; i-- {
			j := rr.Intn(i + 1)
			prs[i], prs[j] = prs[j], prs[i]
		}
		var loopPairs [][]interface{}
		var loopWant strings.Builder
		judged := 0
		for _, p := range prs {
			n := &xNode{op: op, l: &xNode{leaf: &xLeaf{src: "a", val: p.a}}, r: &xNode{leaf: &xLeaf{src: "b", val: p.b}}}
			var tr []string
			want, werr := refEval(n, &tr)
			ctx := c06Ctx(&c06Env{})
			ctx.Set("a", p.a)
			ctx.Set("b", p.b)
			var o R
			o.Pan = core.Guard(func() { o.Out, o.Err = t.Exec(ctx) })
			if o.Pan != nil {
				b.Violate(o.Pan.Sig(), o.Pan.Value)
				break
			}
			if werr == errUnspecified {
				continue
			}
			judged++
			what := fmt.Sprintf("a = %#v, b = %#v", p.a, p.b)
			if werr != nil {
				if o.Err == nil {
					b.ViolateIn("same-node|error-expected|"+op, src+"  with "+what, fmt.Sprintf("reference: error (%v); execution %d of the one parsed template rendered %q", werr, judged, o.Out))
					break
				}
				continue
			}
			if o.Err != nil {
				b.ViolateIn("same-node|valid-rejected|"+op, src+"  with "+what, fmt.Sprintf("reference value %v; execution %d of the one parsed template: %v", want, judged, o.Err))
				break
			}
			if exp := xRender(want); o.Out != exp {
				b.ViolateIn("same-node|wrong-value|"+op, src+"  with "+what, fmt.Sprintf("reference %q; execution %d of the one parsed template rendered %q", exp, judged, o.Out))
				break
			}
			if len(loopPairs) < 200 {
				loopPairs = append(loopPairs, []interface{}{p.a, p.b})
				loopWant.WriteString(xRender(want) + "|")
			}
		}
		b.Count("same-node:" + op)
		b.CountN("same-node-executions", int64(judged))
		// the same pairs, one pass of a loop each
		lsrc := "<%= for (p) in pairs { %><%= p[0] " + op + " p[1] %>|<% } %>"
		if !b.Begin(lsrc) {
			continue
		}
		ctx := c06Ctx(&c06Env{})
		ctx.Set("pairs", loopPairs)
		res := render(b, lsrc, ctx)
		if res.Pan != nil {
			continue
		}
		if res.Err != nil || res.Out != loopWant.String() {
			b.Violate("same-node|loop|"+op, fmt.Sprintf("%d operand pairs, one per pass\nreference %q\n   engine %s", len(loopPairs), loopWant.String(), res))
		} else {
			b.NonTrivialStr(lsrc, op)
		}
	}
}

func leafNode(i int) *xNode { l := xLeaves[i]; return &xNode{leaf: &l} }

func c06Run(b *core.B) {
	r := b.Rng(1)
	var idx int64
	mine := func() bool { idx++; return b.Mine(idx) }
	// depth 1 exhaustive over the whole leaf list
	for i := range xLeaves {
		if mine() {
			c06Check(b, &xNode{op: "!", l: leafNode(i)}, r)
		}
		if mine() {
			c06Check(b, &xNode{op: "!", l: &xNode{op: "!", l: leafNode(i)}}, r)
		}
		for _, op := range xOps {
			for j := range xLeaves {
				if mine() {
					c06Check(b, &xNode{op: op, l: leafNode(i), r: leafNode(j)}, r)
				}
				if mine() {
					c06Check(b, &xNode{op: "!", l: &xNode{op: op, l: leafNode(i), r: leafNode(j)}}, r)
				}
				if mine() {
					c06Check(b, &xNode{op: op, l: &xNode{op: "!", l: leafNode(i)}, r: leafNode(j)}, r)
				}
			}
		}
	}
	// one parsed node, many operand values: `a OP b` is parsed once and executed
	// with every pair of values in a shuffled order, and evaluated once per pair
	// in the body of one loop. What an operator yields depends on the operands
	// it is given now, not on those it was given before.
	c06SameNode(b, mine)
	// depth 2, both shapes, over the 12-leaf core pool: exhaustive in thorough, 1/10 stratified sample in quick
	stride := int64(10)
	if b.Tier == core.Thorough {
		stride = 1
	}
	var k int64
	for _, op1 := range xOps {
		for _, op2 := range xOps {
			for i := 0; i < xCore; i++ {
				for j := 0; j < xCore; j++ {
					for m := 0; m < xCore; m++ {
						k++
						if (k+int64(b.Seed))%stride != 0 {
							continue
						}
						if mine() {
							c06Check(b, &xNode{op: op2, l: &xNode{op: op1, l: leafNode(i), r: leafNode(j)}, r: leafNode(m)}, r)
						}
						if mine() {
							c06Check(b, &xNode{op: op1, l: leafNode(i), r: &xNode{op: op2, l: leafNode(j), r: leafNode(m)}}, r)
						}
					}
				}
			}
		}
	}
	// random trees to depth 5, type-directed half of the time so that deep trees evaluate
	n := 40000
	if b.Tier == core.Thorough {
		n = 5000000
	}
	var gen func(d int, want string) *xNode
	gen = func(d int, want string) *xNode {
		if d == 0 || r.Chance(1, 5) {
			for tries := 0; tries < 20; tries++ {
				i := r.Intn(len(xLeaves))
				if want == "" || kindOf(xLeaves[i].val) == want && !xLeaves[i].unknown {
					return leafNode(i)
				}
			}
			return leafNode(0)
		}
		if r.Chance(1, 8) {
			return &xNode{op: "!", l: gen(d-1, "")}
		}
		op := xOps[r.Intn(len(xOps))]
		sub := ""
		if r.Chance(2, 3) {
			switch op {
			case "+", "-", "*", "/", "<", "<=", ">", ">=":
				sub = pick(r, []string{"int", "int", "float"})
			case "~=":
				sub = "string"
			case "==", "!=":
				sub = pick(r, []string{"int", "string", "bool", "float"})
			}
			// the operands of arithmetic must themselves be arithmetic
			if want != "" && want != "bool" {
				switch op {
				case "+", "-", "*", "/":
					sub = want
				}
			}
		}
		if sub == "bool" || sub == "string" || want == "bool" && (op == "&&" || op == "||") {
			return &xNode{op: op, l: gen(d-1, pick(r, []string{"", sub})), r: gen(d-1, pick(r, []string{"", sub}))}
		}
		mk := func() *xNode {
			if sub == "" {
				return gen(d-1, "")
			}
			// arithmetic subtree of the wanted numeric kind
			if r.Chance(1, 2) {
				return gen(0, sub)
			}
			return &xNode{op: pick(r, []string{"+", "-", "*", "/"}), l: gen(0, sub), r: gen(0, sub)}
		}
		return &xNode{op: op, l: mk(), r: mk()}
	}
	for i := 0; i < n/b.NBatches; i++ {
		c06Check(b, gen(r.Range(2, 5), ""), r)
	}
}

func init() {
	core.Register(&core.Prop{
		ID:         "C06",
		Level:      "exploration",
		Rule:       "expression trees over int/float/string/bool/nil literals and variables, an unknown identifier, with + - * / < <= > >= == != ~= && || !; depth 1 exhaustive over 36 leaves (incl. ! placements), depth 2 both shapes over a 12-leaf pool (exhaustive in thorough, 1/10 in quick), random to depth 5; every operator parsed once as `a OP b` and executed with every ordered pair of 30-odd values in a shuffled order, and once per pair in one loop (a node keeps nothing of its earlier operands). Each tree is printed with minimal, random-redundant and full parentheses, every leaf wrapped in a recording helper; the engine's value, error status and evaluation trace are compared with a reference evaluator of the documented semantics, and the three printings with each other. Non-trivial = judged (not abstained) tree, counted by the hash of its minimal printing.",
		Assume:     []string{"abstentions (not judged): string compared with a non-string, bool on the left of == != + with a non-bool right, bool + bool, string + nil", "the reference evaluator encodes the property text: int x int, float x float, string x string, bool x bool (== !=), nil (== !=), string + x; everything else is a type mismatch"},
		Batches:    batchesQT(16, 64),
		Run:        c06Run,
		Exhaustive: func(t core.Tier) bool { return t == core.Thorough },
	})
}
