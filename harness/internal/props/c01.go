package props

import (
	"fmt"
	"html"
	"html/template"
	"reflect"
	"strings"
	"time"

	"github.com/gobuffalo/plush/v5"

	"verifharness/internal/core"
)

// C01 — strings are HTML-escaped at the output sink whatever route they take;
// trusted HTML is emitted verbatim exactly once.

type c01Val struct {
	s       string
	trusted bool
	// loose: the value is a string payload concatenated with trusted HTML; the
	// property only demands that the string part is escaped (what happens to
	// the trusted part of such a concatenation is not specified)
	loose string
	// mayFail: the route may legitimately be rejected (a plain string given to
	// a helper that wants template.HTML); if it renders, the string is escaped
	mayFail bool
}

// expected output segment
type c01Seg struct {
	lit string
	val *c01Val
}

type c01Holder struct {
	Inner c01Inner
	PInn  *c01Inner
}
type c01Inner struct {
	S string
	H template.HTML
}

type c01Gen struct {
	r        *core.Rng
	n        int
	partials map[string]string
	labels   []string
	forceSeq []int // forced step choices (exhaustive depth-1 coverage), -1 = random
	depthPos int
}

func (g *c01Gen) id(p string) string { g.n++; return fmt.Sprintf("%s%d", p, g.n) }

func (g *c01Gen) lit() string {
	return pick(g.r, []string{"", "_", "x", "ab ", "-.-", "\n", " z "})
}

const c01NSteps = 26
const c01NSinks = 12

var c01StepNames = []string{"let", "array-index", "hash-index", "userfn-identity", "gohelper-identity", "gohelper-typed", "concat-left", "concat-right",
	"for-var", "if-block", "else-block", "helper-block", "contentFor-body", "contentOf-data", "partial-data", "partial-layout", "userfn-body", "userfn-param-body", "nested-array", "concat-with-trusted-right", "concat-with-trusted-left", "helper-with-HTML-parameter", "stored-into-[]template.HTML", "stored-into-map-of-template.HTML", "appended-to-[]template.HTML", "debug()"}
var c01SinkNames = []string{"out", "if-return", "array-literal", "for-return", "hash-index-out", "let-then-out", "typed-strings-slice", "ifaces-slice", "for-over-typed-slice", "helper-block-left-by-break", "helper-block-left-by-continue", "typed-container-printed-whole"}

func (g *c01Gen) choose(n int) int {
	if g.depthPos < len(g.forceSeq) && g.forceSeq[g.depthPos] >= 0 {
		c := g.forceSeq[g.depthPos]
		g.depthPos++
		return c % n
	}
	g.depthPos++
	return g.r.Intn(n)
}

// route returns template text that emits the value of expr (model value v).
func (g *c01Gen) route(d int, expr string, v c01Val) (string, []c01Seg) {
	one := func(pre, post string, inner string, segs []c01Seg) (string, []c01Seg) {
		return pre + inner + post, segs
	}
	if d <= 0 {
		k := g.choose(c01NSinks)
		g.labels = append(g.labels, "sink:"+c01SinkNames[k])
		l1, l2 := g.lit(), g.lit()
		if k == 1 || k == 3 {
			// 'return' leaves the enclosing blocks up to the next loop
			// iteration / function / helper block boundary: nothing may follow it
			l2 = ""
		}
		segs := []c01Seg{{lit: l1}, {val: &v}, {lit: l2}}
		switch k {
		case 0:
			return l1 + "<%= " + expr + " %>" + l2, segs
		case 1:
			return l1 + "<%= if (true) { return " + expr + " } %>" + l2, segs
		case 2:
			return l1 + "<%= [" + expr + ", " + expr + "] %>" + l2, []c01Seg{{lit: l1}, {val: &v}, {val: &v}, {lit: l2}}
		case 3:
			return l1 + "<%= for (q) in [1, 2] { return " + expr + " } %>" + l2, []c01Seg{{lit: l1}, {val: &v}, {val: &v}, {lit: l2}}
		case 4:
			h := g.id("h")
			return l1 + "<% let " + h + " = {k: " + expr + "} %><%= " + h + "[\"k\"] %>" + l2, segs
		case 5:
			x := g.id("o")
			return l1 + "<% let " + x + " = " + expr + " %>" + l2 + "<%= " + x + " %>", []c01Seg{{lit: l1}, {lit: l2}, {val: &v}}
		case 6:
			mk := "mkstrs"
			if v.trusted {
				mk = "mkhtmls"
			}
			return l1 + "<%= " + mk + "(" + expr + ") %>" + l2, []c01Seg{{lit: l1}, {val: &v}, {val: &v}, {lit: l2}}
		case 7:
			return l1 + "<%= mkifaces(" + expr + ") %>" + l2, []c01Seg{{lit: l1}, {val: &v}, {val: &v}, {lit: l2}}
		case 8:
			mk, x := "mkstrs", g.id("e")
			if v.trusted {
				mk = "mkhtmls"
			}
			return l1 + "<%= for (" + x + ") in " + mk + "(" + expr + ") { %>[<%= " + x + " %>]<% } %>" + l2, []c01Seg{{lit: l1}, {lit: "["}, {val: &v}, {lit: "]["}, {val: &v}, {lit: "]"}, {lit: l2}}
		case 9:
			// what a helper's block has produced when a break ends it is output like any other
			return l1 + "<%= for (q) in [1, 2] { %><%= cap() { %>(<%= " + expr + " %><% break %>never<% } %>never<% } %>" + l2, []c01Seg{{lit: l1}, {lit: "("}, {val: &v}, {lit: l2}}
		case 10:
			return l1 + "<%= for (q) in [1, 2] { %><%= cap() { %>(<%= " + expr + " %><% continue %>never<% } %>never<% } %>" + l2, []c01Seg{{lit: l1}, {lit: "("}, {val: &v}, {lit: "("}, {val: &v}, {lit: l2}}
		default:
			// a Go slice typed by its element type, printed whole like []string is
			mk := "mkstrs"
			if v.trusted {
				mk = "mkTypedHTMLs"
			}
			return l1 + "<%= " + mk + "(" + expr + ") %>" + l2, []c01Seg{{lit: l1}, {val: &v}, {val: &v}, {lit: l2}}
		}
	}
	k := g.choose(c01NSteps)
	if v.trusted && k == 21 {
		k = 4
	}
	if v.trusted && (k == 6 || k == 7 || k == 5 || k >= 19 && k <= 21) {
		k = 0 // concat / string-typed helper are string-only steps
	}
	if v.loose != "" && (k == 5 || k == 6 || k == 7 || k >= 19 && k <= 21) {
		k = 0
	}
	g.labels = append(g.labels, "step:"+c01StepNames[k])
	switch k {
	case 0:
		x := g.id("v")
		in, segs := g.route(d-1, x, v)
		return one("<% let "+x+" = "+expr+" %>", "", in, segs)
	case 1:
		return g.route(d-1, "["+expr+", 5][0]", v)
	case 2:
		h := g.id("h")
		in, segs := g.route(d-1, h+"[\"k\"]", v)
		return one("<% let "+h+" = {k: "+expr+", j: 1} %>", "", in, segs)
	case 3:
		f := g.id("f")
		in, segs := g.route(d-1, f+"("+expr+")", v)
		return one("<% let "+f+" = fn(a) { return a } %>", "", in, segs)
	case 4:
		return g.route(d-1, "ident("+expr+")", v)
	case 5:
		return g.route(d-1, "idstr("+expr+")", v)
	case 6:
		return g.route(d-1, "(\"L_\" + "+expr+")", c01Val{s: "L_" + v.s})
	case 7:
		return g.route(d-1, "("+expr+" + \"_R\")", c01Val{s: v.s + "_R"})
	case 8:
		x := g.id("x")
		in, segs := g.route(d-1, x, v)
		return one("<%= for ("+x+") in ["+expr+"] { %>", "<% } %>", in, segs)
	case 9:
		in, segs := g.route(d-1, expr, v)
		return one("<%= if (true) { %>", "<% } %>", in, segs)
	case 10:
		in, segs := g.route(d-1, expr, v)
		return one("<%= if (false) { %>NO<% } else { %>", "<% } %>", in, segs)
	case 11:
		in, segs := g.route(d-1, expr, v)
		return one("<%= cap() { %>", "<% } %>", in, segs)
	case 12:
		c := g.id("c")
		in, segs := g.route(d-1, expr, v)
		return one("<% contentFor(\""+c+"\") { %>", "<% } %><%= contentOf(\""+c+"\") %>", in, segs)
	case 13:
		c, dn := g.id("c"), g.id("d")
		in, segs := g.route(d-1, dn, v)
		return one("<% contentFor(\""+c+"\") { %>", "<% } %><%= contentOf(\""+c+"\", {"+dn+": "+expr+"}) %>", in, segs)
	case 14:
		p, dn := g.id("p"), g.id("d")
		in, segs := g.route(d-1, dn, v)
		g.partials[p] = in
		return "<%= partial(\"" + p + "\", {" + dn + ": " + expr + "}) %>", segs
	case 15:
		p, l, dn := g.id("p"), g.id("l"), g.id("d")
		in, segs := g.route(d-1, dn, v)
		g.partials[p] = in
		g.partials[l] = "LAY(<%= yield %>)"
		out := append([]c01Seg{{lit: "LAY("}}, segs...)
		out = append(out, c01Seg{lit: ")"})
		return "<%= partial(\"" + p + "\", {" + dn + ": " + expr + ", layout: \"" + l + "\"}) %>", out
	case 16:
		f := g.id("f")
		in, segs := g.route(d-1, expr, v)
		return one("<% let "+f+" = fn() { %>", "<% } %><%= "+f+"() %>", in, segs)
	case 17:
		f, a := g.id("f"), g.id("a")
		in, segs := g.route(d-1, a, v)
		return one("<% let "+f+" = fn("+a+") { %>", "<% } %><%= "+f+"("+expr+") %>", in, segs)
	case 18:
		return g.route(d-1, "[[1, "+expr+"]][0][1]", v)
	case 19:
		return g.route(d-1, "("+expr+" + raw(\"<br>\"))", c01Val{s: v.s, loose: "<br>"})
	case 20:
		return g.route(d-1, "(\"\" + "+expr+" + trustedVar)", c01Val{s: v.s, loose: "<hr>"})
	case 21:
		nv := v
		nv.mayFail = true
		if nv.loose == "" {
			nv.loose = "\x00none\x00"
		}
		return g.route(d-1, "wantsHTML("+expr+")", nv)
	default:
		// containers whose element type is trusted HTML: a plain string may be refused
		// there, but storing it must not turn it into trusted HTML
		nv := v
		nv.mayFail = true
		if !nv.trusted && nv.loose == "" {
			nv.loose = "\x00none\x00"
		}
		switch k {
		case 25:
			// a shipped helper that wraps its argument in markup of its own: the argument is data
			dv := v
			dv.trusted = true // what debug returns is typed as HTML; its content is judged by the model-free oracle
			dv.loose = "<pre>\x01</pre>"
			return g.route(d-1, "debug("+expr+")", dv)
		case 22:
			in, segs := g.route(d-1, "hsl[0]", nv)
			return one("<% hsl[0] = "+expr+" %>", "", in, segs)
		case 23:
			in, segs := g.route(d-1, "hmp[\"k\"]", nv)
			return one("<% hmp[\"k\"] = "+expr+" %>", "", in, segs)
		}
		return g.route(d-1, "(hsl + "+expr+")[1]", nv)
	}
}

const c01NSources = 25

var c01SourceNames = []string{"ctx-var", "dq-literal", "bq-literal", "struct-field", "ptr-struct-field", "nested-struct-field", "map-element", "map-iface-element",
	"strings-element", "ifaces-element", "helper-string", "helper-iface", "raw()", "html-var", "htmler-var", "helper-html", "reflect-value-of-string", "stringer-var", "named-string-with-String-method", "time-zone-name", "nil-pointer-whose-String-expects-nil", "nil-pointer-whose-HTML-expects-nil", "named-string-type-without-methods", "reflect-value-of-html", "wrapper-of-string-after-wrapper-of-html"}

// source sets up the context for payload p and returns the initial expression.
func c01Source(k int, p string, ctx *plush.Context) (expr string, v c01Val, ok bool) {
	switch k {
	case 0:
		ctx.Set("pay", p)
		return "pay", c01Val{s: p}, true
	case 1:
		if strings.ContainsAny(p, "\x00") || strings.HasSuffix(p, "\\") {
			return "", v, false
		}
		return "\"" + strings.Replace(p, "\"", "\\\"", -1) + "\"", c01Val{s: p}, true
	case 2:
		if strings.ContainsAny(p, "\x00`") {
			return "", v, false
		}
		return "`" + p + "`", c01Val{s: p}, true
	case 3:
		ctx.Set("st", c01Inner{S: p})
		return "st.S", c01Val{s: p}, true
	case 4:
		ctx.Set("pst", &c01Inner{S: p})
		return "pst.S", c01Val{s: p}, true
	case 5:
		ctx.Set("ho", c01Holder{Inner: c01Inner{S: p}, PInn: &c01Inner{S: p}})
		return "ho.PInn.S", c01Val{s: p}, true
	case 6:
		ctx.Set("mss", map[string]string{"k": p})
		return "mss[\"k\"]", c01Val{s: p}, true
	case 7:
		ctx.Set("msi", map[string]interface{}{"k": p})
		return "msi[\"k\"]", c01Val{s: p}, true
	case 8:
		ctx.Set("ss", []string{"zero", p})
		return "ss[1]", c01Val{s: p}, true
	case 9:
		ctx.Set("is", []interface{}{p, 1})
		return "is[0]", c01Val{s: p}, true
	case 10:
		ctx.Set("hs", func() string { return p })
		return "hs()", c01Val{s: p}, true
	case 11:
		ctx.Set("hi", func() interface{} { return p })
		return "hi()", c01Val{s: p}, true
	case 12:
		ctx.Set("pay", p)
		return "raw(pay)", c01Val{s: p, trusted: true}, true
	case 13:
		ctx.Set("hv", template.HTML(p))
		return "hv", c01Val{s: p, trusted: true}, true
	case 14:
		ctx.Set("hr", htmlerFix{p})
		return "hr", c01Val{s: p, trusted: true}, true
	case 15:
		ctx.Set("hh", func() template.HTML { return template.HTML(p) })
		return "hh()", c01Val{s: p, trusted: true}, true
	case 16:
		// the sink unwraps anything with an Interface() method
		ctx.Set("rvs", reflect.ValueOf(p))
		return "rvs", c01Val{s: p}, true
	case 17:
		// what String() returns is a Go string like any other: not trusted HTML
		ctx.Set("sgr", stringerFix{p})
		return "sgr", c01Val{s: p}, true
	case 18:
		ctx.Set("nsg", c01NamedStringer(p))
		return "nsg", c01Val{s: p}, true
	case 19:
		// a time prints through its format; the name of its zone is data
		if strings.ContainsAny(p, "\x00") {
			return "", v, false
		}
		ctx.Set("TIME_FORMAT", "MST")
		ctx.Set("tmz", time.Date(2020, 1, 2, 3, 4, 5, 0, time.FixedZone(p, 3600)))
		return "tmz", c01Val{s: p}, true
	case 20:
		// a nil pointer is a value like any other when its methods expect one
		c01NilText = p
		ctx.Set("nps", (*c01NilSafe)(nil))
		return "nps", c01Val{s: p}, true
	case 21:
		c01NilText = p
		ctx.Set("nph", (*c01NilSafeHTML)(nil))
		return "nph", c01Val{s: p, trusted: true}, true
	case 22:
		// type Role string: a string like any other
		ctx.Set("nrl", c01Role(p))
		return "nrl", c01Val{s: p}, true
	case 23:
		// one wrapper type, another content: what is inside decides, each time
		ctx.Set("rvh", reflect.ValueOf(template.HTML(p)))
		return "rvh", c01Val{s: p, trusted: true}, true
	default:
		// a wrapper of the caller's own: its type has been seen holding trusted HTML just before
		_, _ = plush.Render("<%= w %>", plush.NewContextWith(map[string]interface{}{"w": c01Wrap{template.HTML("<i>")}}))
		ctx.Set("wrp", c01Wrap{p})
		return "wrp", c01Val{s: p}, true
	}
}

type c01Role string

// c01Wrap holds anything; Interface() hands it out.
type c01Wrap struct{ v interface{} }

func (w c01Wrap) Interface() interface{} { return w.v }

// c01NilText is what the nil receivers below print (the workload runs in one goroutine).
var c01NilText string

type c01NilSafe struct{ s string }

func (n *c01NilSafe) String() string {
	if n == nil {
		return c01NilText
	}
	return n.s
}

type c01NilSafeHTML struct{ s string }

func (n *c01NilSafeHTML) HTML() template.HTML {
	if n == nil {
		return template.HTML(c01NilText)
	}
	return template.HTML(n.s)
}

type c01NamedStringer string

func (n c01NamedStringer) String() string { return string(n) }

var c01Bodies = []string{"<", ">", "&", "'", "\"", "<>&'\"", "&amp;", "&lt;b&gt;", "&#39;", "é✓<é>", "\xff<\xfe", "a\x00<b", "<script>alert(1)</script>", "%><%= 1 %><%", "<<<<<<<<&&&&&&&&>>>>>>>>", "plain"}

func c01Ctx(partials map[string]string) *plush.Context {
	ctx := plush.NewContext()
	ctx.Set("ident", func(x interface{}) interface{} { return x })
	ctx.Set("idstr", func(s string) string { return s })
	ctx.Set("trustedVar", template.HTML("<hr>"))
	ctx.Set("hsl", []template.HTML{"<i>t</i>"})
	ctx.Set("hmp", map[string]template.HTML{"j": "<i>t</i>"})
	ctx.Set("wantsHTML", func(h template.HTML) template.HTML { return h })
	ctx.Set("mkstrs", func(s string) []string { return []string{s, s} })
	ctx.Set("mkhtmls", func(s interface{}) []interface{} { return []interface{}{s, s} })
	ctx.Set("mkifaces", func(s interface{}) []interface{} { return []interface{}{s, s} })
	ctx.Set("mkTypedHTMLs", func(s interface{}) interface{} {
		switch h := s.(type) {
		case template.HTML:
			return []template.HTML{h, h}
		case plush.HTMLer:
			return []template.HTML{h.HTML(), h.HTML()}
		}
		return []interface{}{s, s}
	})
	ctx.Set("cap", func(h plush.HelperContext) (template.HTML, error) {
		s, err := h.Block()
		return template.HTML(s), err
	})
	ctx.Set("partialFeeder", func(n string) (string, error) {
		if s, ok := partials[n]; ok {
			return s, nil
		}
		return "", fmt.Errorf("no partial %s", n)
	})
	return ctx
}

func isEntityAt(s string, i int) bool {
	rest := s[i:]
	for _, e := range []string{"&lt;", "&gt;", "&amp;", "&quot;", "&apos;", "&#34;", "&#39;", "&#60;", "&#62;", "&#38;", "&#x3c;", "&#x3e;", "&#x26;", "&#x22;", "&#x27;", "&#x3C;", "&#x3E;"} {
		if strings.HasPrefix(rest, e) {
			return true
		}
	}
	return false
}

// c01ModelFree is oracle (a): with verbatim trusted payloads cut out, no raw
// special character remains and every & opens an entity.
func c01ModelFree(out string, trusted []string) string {
	for _, t := range trusted {
		if t != "" {
			out = strings.Replace(out, t, "", -1)
		}
	}
	for i := 0; i < len(out); i++ {
		switch out[i] {
		case '<', '>', '\'', '"':
			return fmt.Sprintf("raw %q at offset %d of %q", out[i], i, out)
		case '&':
			if !isEntityAt(out, i) {
				return fmt.Sprintf("raw & at offset %d of %q", i, out)
			}
		}
	}
	return ""
}

func c01Judge(b *core.B, src string, segs []c01Seg, res R, id string, sigPrefix string) {
	if res.Pan != nil {
		return
	}
	if res.Err != nil {
		for _, s := range segs {
			if s.val != nil && s.val.mayFail {
				b.Count("rejected-route(allowed)")
				return
			}
		}
		b.Violate(sigPrefix+"route-rejected:"+core.ErrClass(res.Err), fmt.Sprintf("the route is well-formed but rendering failed: %v", res.Err))
		return
	}
	var canon, plain strings.Builder
	var trusted []string
	hasNUL := false
	for _, s := range segs {
		if s.val != nil && s.val.loose != "" {
			// only the model-free oracle applies: the string payload must be escaped
			if strings.Contains(res.Out, id) {
				b.NonTrivialStr(src, id)
			}
			if why := c01ModelFree(res.Out, strings.Split(s.val.loose, "\x01")); why != "" {
				b.Violate(sigPrefix+"unescaped-output", why)
			}
			return
		}
	}
	for _, s := range segs {
		if s.val == nil {
			canon.WriteString(s.lit)
			plain.WriteString(s.lit)
			continue
		}
		if strings.Contains(s.val.s, "\x00") {
			hasNUL = true
		}
		if s.val.trusted {
			canon.WriteString(s.val.s)
			plain.WriteString("\x01T\x01")
			trusted = append(trusted, s.val.s)
		} else {
			canon.WriteString(template.HTMLEscapeString(s.val.s))
			plain.WriteString(s.val.s)
		}
	}
	if strings.Contains(res.Out, id) {
		b.NonTrivialStr(src, id)
	}
	if res.Out == canon.String() {
		return
	}
	// (a) model-free
	if why := c01ModelFree(res.Out, trusted); why != "" {
		kind := "unescaped-output"
		b.Violate(sigPrefix+kind, why+"\nexpected "+fmt.Sprintf("%q", canon.String()))
		return
	}
	if hasNUL {
		b.Abstain()
		return
	}
	// (b) entity-agnostic exact comparison
	got := res.Out
	for _, t := range trusted {
		if t != "" {
			got = strings.Replace(got, t, "\x01T\x01", 1)
		}
	}
	if html.UnescapeString(got) != plain.String() {
		kind := "wrong-output"
		switch {
		case !strings.Contains(res.Out, id):
			kind = "payload-dropped"
		case strings.Count(res.Out, id) > strings.Count(canon.String(), id):
			kind = "payload-duplicated"
		case strings.Contains(res.Out, "&amp;lt;") || strings.Contains(res.Out, "&amp;amp;") || strings.Contains(res.Out, "&amp;#"):
			kind = "double-escaped"
		}
		b.Violate(sigPrefix+kind, fmt.Sprintf("expected %q\n     got %q", canon.String(), res.Out))
	}
}

func c01Run(b *core.B) {
	bodies := append([]string{}, c01Bodies...)
	if b.Tier == core.Thorough {
		alpha := []string{"<", ">", "&", "'", "\"", "a", "é"}
		for _, a := range alpha {
			bodies = append(bodies, a)
			for _, c := range alpha {
				bodies = append(bodies, a+c)
				for _, e := range alpha {
					bodies = append(bodies, a+c+e)
				}
			}
		}
	}
	var idx int64
	run := func(force []int, depth, srcK int, body string, rr *core.Rng) {
		idx++
		if !b.Mine(idx) {
			return
		}
		id := fmt.Sprintf("Zq%dx", idx%9973)
		p := id + body
		g := &c01Gen{r: rr, partials: map[string]string{}, forceSeq: force}
		ctx := c01Ctx(g.partials)
		expr, v, ok := c01Source(srcK, p, ctx)
		if !ok {
			return
		}
		if srcK >= 16 {
			// a reflect.Value is only a string for the output sink, not for
			// typed helpers or operators: direct emission only
			if depth != 0 || len(force) != 1 || force[0] == 6 || force[0] == 8 || force[0] == 11 {
				return
			}
		}
		src, segs := g.route(depth, expr, v)
		full := src
		if len(g.partials) > 0 {
			full += "\n-- partials: " + fmt.Sprint(g.partials)
		}
		if !b.Begin(full) {
			return
		}
		res := render(b, src, ctx)
		b.Count("source:" + c01SourceNames[srcK])
		for _, l := range g.labels {
			b.Count(l)
		}
		if len(g.labels) == 2 {
			b.Count("triple:" + c01SourceNames[srcK] + "/" + g.labels[0] + "/" + g.labels[1])
		}
		sig := ""
		if len(g.labels) > 0 {
			// the first step and the sink name the route class of a violation
			sig = strings.Join(g.labels, ">") + "|"
			if len(g.labels) > 2 {
				sig = g.labels[0] + ">…>" + g.labels[len(g.labels)-1] + "|"
			}
		}
		if v.trusted {
			sig = "trusted|" + sig
		} else {
			sig = "string|" + sig
		}
		c01Judge(b, src, segs, res, id, sig)
		if idx%50021 == 0 {
			b.Sample(map[string]any{"template": src, "partials": g.partials, "payload": p, "got": res.Out})
		}
	}
	// mixed operands: every ordered pair of sources joined by +, written in four
	// places. Most pairs are refused today (trusted HTML is no operand); the
	// property only says what may be in the output when they are not: the
	// trusted payloads verbatim, everything else escaped.
	pairForms := []struct{ name, tmpl string }{
		{"direct", "<%= A + B %>"},
		{"let", "<% let x = A + B %><%= x %>"},
		{"fn", "<% let f = fn(a, b) { return a + b } %><%= f(A, B) %>"},
		{"for", "<%= for (e) in [B] { %><%= A + e %><% } %>"},
	}
	clash := func(a, c int) bool {
		if a == c {
			return true
		}
		same := func(x, y int) bool { return (a == x && c == y) || (a == y && c == x) }
		return same(0, 12) || same(20, 21)
	}
	for sa := 0; sa < c01NSources; sa++ {
		for sb := 0; sb < c01NSources; sb++ {
			if clash(sa, sb) {
				continue
			}
			for _, f := range pairForms {
				for _, body := range []string{"<>&'\"", "<b>&amp;</b>"} {
					idx++
					if !b.Mine(idx) {
						continue
					}
					ida, idb := fmt.Sprintf("Zq%da", idx%9973), fmt.Sprintf("Zq%db", idx%9973)
					ctx := c01Ctx(map[string]string{})
					ea, va, ok1 := c01Source(sa, ida+body, ctx)
					eb, vb, ok2 := c01Source(sb, idb+body, ctx)
					if !ok1 || !ok2 {
						continue
					}
					src := strings.NewReplacer("A", ea, "B", eb).Replace(f.tmpl)
					if !b.Begin(src) {
						continue
					}
					res := render(b, src, ctx)
					b.Count("pair-form:" + f.name)
					if res.Pan != nil {
						continue
					}
					if res.Err != nil {
						b.Count("pair-refused(allowed)")
						continue
					}
					b.Count("pair-rendered")
					var trusted []string
					if va.trusted {
						trusted = append(trusted, va.s)
					}
					if vb.trusted {
						trusted = append(trusted, vb.s)
					}
					if strings.Contains(res.Out, ida) || strings.Contains(res.Out, idb) {
						b.NonTrivialStr(src, ida)
					}
					if why := c01ModelFree(res.Out, trusted); why != "" {
						b.Violate("pair|"+c01SourceNames[sa]+"+"+c01SourceNames[sb]+"|unescaped-output", why)
					}
				}
			}
		}
	}
	// exhaustive depth 1: every (source, step, sink) triple x core payloads
	rr := b.Rng(7)
	coreBodies := []string{"<>&'\"", "&amp;", "é✓<é>", "%><%= 1 %><%"}
	for s := 0; s < c01NSources; s++ {
		for st := 0; st < c01NSteps; st++ {
			for sk := 0; sk < c01NSinks; sk++ {
				for _, body := range coreBodies {
					run([]int{st, sk}, 1, s, body, rr)
				}
			}
		}
		for sk := 0; sk < c01NSinks; sk++ {
			for _, body := range bodies {
				run([]int{sk}, 0, s, body, rr)
			}
		}
	}
	// depth 2 exhaustive over step pairs (sink random), one payload each
	for s := 0; s < c01NSources; s++ {
		for st := 0; st < c01NSteps; st++ {
			for st2 := 0; st2 < c01NSteps; st2++ {
				run([]int{st, st2, -1}, 2, s, pick(rr, bodies), rr)
			}
		}
	}
	// random deeper routes
	n := 60000
	maxD := 3
	if b.Tier == core.Thorough {
		n = 8000000
		maxD = 6
	}
	for i := 0; i < n; i++ {
		idx++
		if !b.Mine(idx) {
			continue
		}
		idx--
		r2 := core.Derive(b.Seed, 0xC01, uint64(i))
		run(nil, r2.Range(1, maxD), r2.Intn(c01NSources), pick(r2, bodies), r2)
	}
}

func init() {
	core.Register(&core.Prop{
		ID:    "C01",
		Level: "exploration",
		Rule: "payload = unique alnum id + hostile body (each special alone/together, ready-made entities, multi-byte, invalid UTF-8, NUL, tag delimiters; thorough: all strings of length <= 3 over {< > & ' \" a é}); " + fmt.Sprint(c01NSources) + " sources (context var, literals, struct/pointer/map/slice fields, helper results, raw(), template.HTML, HTMLer, reflect.Value, Stringers, named string types with and without methods, a time's zone name, nil pointers whose String / HTML expect nil) x " + fmt.Sprint(c01NSteps) + " plumbing steps (let, array/hash wrap+index, identity user fn / Go helper, concatenation, for variable, if/else block, helper block, contentFor body, contentOf data, partial data, layout, function bodies, typed-HTML containers, debug()) x " + fmt.Sprint(c01NSinks) + " sinks (output tag, if / for return, array literal, hash index, let, typed and interface slices, loops over them, helper blocks left by break / continue, a typed container printed whole); every ordered pair of sources joined by + in four places (refused or escaped); every (source, step, sink) triple and every step pair enumerated, deeper routes random (depth <= 3 quick, <= 5 thorough). " +
			"Oracle: expected output is built by the generator; byte equality with the canonical escaping, else (a) no raw special outside verbatim trusted payloads and (b) entity-agnostic equality after unescaping. Non-trivial = the payload id actually appeared in the output (counted by template+payload hash).",
		Assume:  []string{"literal text between tags uses an alphabet without HTML specials, so every special in the output is attributable to a payload", "NUL bytes are judged by the model-free oracle only (html/template maps NUL to U+FFFD)", "string + template.HTML, fmt.Stringer and named string types are not generated (abstentions of DESIGN.md §5 C01)"},
		Batches: batchesQT(16, 64),
		Run:     c01Run,
	})
}
