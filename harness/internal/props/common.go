// Package props holds one workload + oracle per property.
package props

import (
	"fmt"
	"strings"

	"github.com/gobuffalo/plush/v5"
	"github.com/gobuffalo/plush/v5/ast"
	"github.com/gobuffalo/plush/v5/parser"

	"verifharness/internal/core"
)

// R is the observation of one render.
type R struct {
	Out string
	Err error
	Pan *core.PanicInfo
}

func (r R) String() string {
	if r.Pan != nil {
		return "PANIC " + r.Pan.Sig() + ": " + r.Pan.Value
	}
	if r.Err != nil {
		return fmt.Sprintf("ERR %q", r.Err.Error())
	}
	return fmt.Sprintf("OUT %q", r.Out)
}

// OK says the render produced output without error or panic.
func (r R) OK() bool { return r.Pan == nil && r.Err == nil }

// Failed says the render returned an error (not a panic).
func (r R) Failed() bool { return r.Pan == nil && r.Err != nil }

// render executes the real engine under recover. Universal monitors: a panic
// or a lexer budget overrun is a violation of the running check's property,
// as is an error accompanied by output.
func render(b *core.B, tmpl string, ctx *plush.Context) R {
	var r R
	r.Pan = core.Guard(func() {
		r.Out, r.Err = plush.Render(tmpl, ctx)
	})
	universal(b, r)
	return r
}

// renderQuiet is render without the universal monitors (for oracles that
// classify panics themselves).
func renderQuiet(tmpl string, ctx *plush.Context) R {
	var r R
	r.Pan = core.Guard(func() {
		r.Out, r.Err = plush.Render(tmpl, ctx)
	})
	return r
}

// renderAgain: what a template renders does not depend on its parsed program having been
// executed before. The text is parsed once and executed three times with fresh contexts from
// mk; each execution must agree with first (the result of an ordinary render of the same text
// with a context from the same maker). Used by oracles whose templates are deterministic.
func renderAgain(b *core.B, src string, mk func() *plush.Context, first R, sig string) {
	if first.Pan != nil {
		return
	}
	var t *plush.Template
	var err error
	if pan := core.Guard(func() { t, err = plush.NewTemplate(src) }); pan != nil || err != nil {
		return // the ordinary render has reported it
	}
	for k := 1; k <= 3; k++ {
		var o R
		ctx := mk()
		o.Pan = core.Guard(func() { o.Out, o.Err = t.Exec(ctx) })
		b.Count("later-executions-of-one-parsed-template")
		if o.Pan != nil {
			b.ViolateIn("later-execution|"+o.Pan.Sig(), src, o.Pan.Value)
			return
		}
		if (o.Err == nil) != (first.Err == nil) || o.Err == nil && o.Out != first.Out {
			b.ViolateIn("later-execution-differs|"+sig, src, fmt.Sprintf("ordinary render: %s\nexecution %d of one parsed template: %s", first, k, o))
			return
		}
	}
}

func universal(b *core.B, r R) {
	if r.Pan != nil {
		b.Violate(r.Pan.Sig(), "panic: "+r.Pan.Value+"\n"+clipStack(r.Pan.Stack))
		return
	}
	if r.Err != nil && r.Out != "" {
		b.Violate("universal:error-with-output", fmt.Sprintf("err=%q out=%q", r.Err, r.Out))
	}
}

func clipStack(s string) string {
	lines := strings.Split(s, "\n")
	if len(lines) > 24 {
		lines = lines[:24]
	}
	return strings.Join(lines, "\n")
}

// parseOnly runs parser.Parse under recover.
func parseOnly(s string) (prog *ast.Program, err error, pan *core.PanicInfo) {
	pan = core.Guard(func() {
		prog, err = parser.Parse(s)
	})
	return
}

func batchesQT(q, t int) func(core.Tier) int {
	return func(tier core.Tier) int {
		if tier == core.Thorough {
			return t
		}
		return q
	}
}

func pick[T any](r *core.Rng, xs []T) T { return xs[r.Intn(len(xs))] }
