package props

import (
	"fmt"
	"html/template"
	"strings"

	"github.com/gobuffalo/plush/v5"

	"verifharness/internal/core"
)

// A shared generator of well-formed programs kept as token lists in
// maximal-split form: one statement per tag, every statement boundary an
// explicit tag boundary. Printers re-lay them out (C18) or print them
// canonically (C13, C14, C17).

type pUnit struct {
	text   string   // literal text (when toks == nil)
	open   string   // "<%" or "<%="
	toks   []string // tokens of the tag
	simple bool     // a simple statement: may be followed by ';'
	glueOK bool     // may be merged with the previous tag (never for <%= and for tags starting with else)
}

type pProg struct {
	units    []pUnit
	partials map[string]string
	features map[string]bool
}

type pGen struct {
	r        *core.Rng
	ints     []string
	strs     []string
	lists    []string
	fns      []string
	n        int
	depth    int
	features map[string]bool
	hashBias bool
	noFail   bool
	noAssign bool
	noReturn bool   // no bare return: it also leaves the blocks around it, so a body is not the same at top level and inside a block
	partials bool   // may call partial("pp") / partial("pq") (the context must have a feeder)
	salt     string // makes regular-expression patterns unique per program
	inLoop   int
}

func newPGen(r *core.Rng) *pGen {
	return &pGen{r: r, ints: []string{"ci"}, strs: []string{"cs"}, lists: []string{"xs"}, features: map[string]bool{}}
}

func (g *pGen) fresh(p string) string { g.n++; return fmt.Sprintf("%s%d", p, g.n) }

func (g *pGen) intExpr(d int) []string {
	if d <= 0 || g.r.Chance(1, 3) {
		switch g.r.Intn(4) {
		case 0:
			return []string{fmt.Sprint(g.r.Intn(10))}
		case 1:
			return []string{pick(g.r, g.ints)}
		case 2:
			return []string{"len", "(", pick(g.r, g.lists), ")"}
		default:
			return []string{"tt.N"}
		}
	}
	switch g.r.Intn(5) {
	case 0, 1:
		op := pick(g.r, []string{"+", "-", "*"})
		return append(append(g.intExpr(d-1), op), g.intExpr(d-1)...)
	case 2:
		return append(append([]string{"("}, g.intExpr(d-1)...), ")")
	case 3:
		if len(g.fns) > 0 {
			g.features["fn-call"] = true
			f := pick(g.r, g.fns)
			return append(append(append([]string{f, "("}, g.intExpr(d-1)...), ","), append(g.intExpr(0), ")")...)
		}
		fallthrough
	default:
		g.features["index"] = true
		return []string{"nums", "[", fmt.Sprint(g.r.Intn(3)), "]"}
	}
}

func (g *pGen) strExpr(d int) []string {
	if d <= 0 || g.r.Chance(1, 3) {
		switch g.r.Intn(5) {
		case 0:
			return []string{pick(g.r, []string{`"s"`, `"a b"`, "`bq`", `"<b>"`, `"x#y"`, `"1%>2"`})}
		case 1:
			return []string{pick(g.r, g.strs)}
		case 2:
			return []string{"tt.Name"}
		case 3:
			return []string{"xs", "[", fmt.Sprint(g.r.Intn(2)), "]"}
		default:
			g.features["hash-index"] = true
			return []string{"hh", "[", `"k"`, "]"}
		}
	}
	switch g.r.Intn(4) {
	case 0:
		return append(append(g.strExpr(d-1), "+"), g.strExpr(d-1)...)
	case 1:
		return append(append(append(g.strExpr(d-1), "+", "("), g.intExpr(d-1)...), ")")
	case 2:
		g.features["helper-call"] = true
		switch g.r.Intn(6) {
		case 0:
			// helpers called without their options argument
			g.features["helper-with-omitted-options"] = true
			return append(append([]string{"truncate", "("}, g.strExpr(d-1)...), ")")
		case 1:
			g.features["pathFor"] = true
			return []string{"pathFor", "(", fmt.Sprintf("pf%d", g.r.Intn(8)), ")"}
		}
		return append(append([]string{pick(g.r, []string{"upcase", "capitalize", "up"}), "("}, g.strExpr(d-1)...), ")")
	default:
		g.features["method-call"] = true
		return []string{"tt.Label", "(", ")"}
	}
}

func (g *pGen) cond(d int) []string {
	switch g.r.Intn(7) {
	case 0:
		return append(append(g.intExpr(d), pick(g.r, []string{"<", ">", "==", "!=", "<=", ">="})), g.intExpr(d)...)
	case 1:
		return append(append(g.strExpr(0), pick(g.r, []string{"==", "!="})), g.strExpr(0)...)
	case 2:
		return []string{pick(g.r, []string{"true", "false"})}
	case 3:
		if d > 0 {
			return append(append(g.cond(d-1), pick(g.r, []string{"&&", "||"})), g.cond(d-1)...)
		}
		return []string{"true"}
	case 4:
		return append([]string{"!"}, "(", strings.Join(g.cond(0), " "), ")")
	case 5:
		return []string{"unknownName"}
	default:
		return append(append(g.strExpr(0), "~="), `"^s`+g.salt+`"`)
	}
}

func (g *pGen) anyExpr() []string {
	switch g.r.Intn(6) {
	case 0, 1:
		return g.intExpr(2)
	case 2, 3:
		return g.strExpr(2)
	case 4:
		g.features["array-literal"] = true
		return append(append(append([]string{"["}, g.intExpr(1)...), ","), append(g.strExpr(1), "]")...)
	default:
		// an unknown identifier is tolerated only in condition position
		for {
			c := g.cond(1)
			if !strings.Contains(strings.Join(c, " "), "unknownName") {
				return c
			}
		}
	}
}

func (g *pGen) hashLit() []string {
	g.features["hash-literal"] = true
	n := g.r.Range(1, 5)
	toks := []string{"{"}
	keys := []string{"a", "b", "c", "k", "a"} // duplicate key on purpose
	for i := 0; i < n; i++ {
		if i > 0 {
			toks = append(toks, ",")
		}
		toks = append(toks, keys[g.r.Intn(len(keys))], ":")
		if g.hashBias || g.r.Bool() {
			g.n++
			toks = append(toks, "val", "(", fmt.Sprintf("\"h%d\"", g.n), ",")
			toks = append(toks, g.intExpr(0)...)
			toks = append(toks, ")")
			g.features["side-effect-in-hash"] = true
		} else {
			toks = append(toks, g.intExpr(0)...)
		}
	}
	return append(toks, "}")
}

func text(g *pGen) pUnit {
	return pUnit{text: pick(g.r, []string{"text ", "<p>", "</p>\n", " ", "\n", "a&amp;b", "-", "é ", "line\nbreak\n"})}
}

func tag(open string, simple bool, toks ...string) pUnit {
	return pUnit{open: open, toks: toks, simple: simple, glueOK: open == "<%"}
}

func (g *pGen) stmts(depth, n int) []pUnit {
	var out []pUnit
	for i := 0; i < n; i++ {
		out = append(out, g.stmt(depth)...)
	}
	return out
}

func (g *pGen) stmt(depth int) []pUnit {
	k := g.r.Intn(16)
	switch {
	case k < 2:
		return []pUnit{text(g)}
	case k < 5:
		g.features["output"] = true
		return []pUnit{tag("<%=", true, g.anyExpr()...)}
	case k == 5:
		v := g.fresh("iv")
		u := tag("<%", true, append([]string{"let", v, "="}, g.intExpr(2)...)...)
		g.ints = append(g.ints, v)
		g.features["let"] = true
		return []pUnit{u}
	case k == 6:
		v := g.fresh("sv")
		u := tag("<%", true, append([]string{"let", v, "="}, g.strExpr(2)...)...)
		g.strs = append(g.strs, v)
		return []pUnit{u}
	case k == 7 && !g.noAssign:
		g.features["assignment"] = true
		if g.r.Bool() {
			return []pUnit{tag("<%", true, append([]string{pick(g.r, g.ints), "="}, g.intExpr(1)...)...)}
		}
		return []pUnit{tag("<%", true, append([]string{"nums", "[", fmt.Sprint(g.r.Intn(3)), "]", "="}, g.intExpr(1)...)...)}
	case k == 8:
		v := g.fresh("hv")
		return []pUnit{tag("<%", true, append([]string{"let", v, "="}, g.hashLit()...)...), tag("<%=", true, v, "[", `"a"`, "]")}
	case k == 9 && depth > 0:
		g.features["if"] = true
		open := pick(g.r, []string{"<%=", "<%=", "<%"})
		out := []pUnit{tag(open, false, append(append([]string{"if", "("}, g.cond(1)...), ")", "{")...)}
		// names bound in a branch that may not be taken are not used afterwards
		saveI, saveS, saveF := g.ints, g.strs, g.fns
		defer func() { g.ints, g.strs, g.fns = saveI, saveS, saveF }()
		out = append(out, g.stmts(depth-1, g.r.Range(1, 3))...)
		g.ints, g.strs, g.fns = saveI, saveS, saveF
		if !g.noReturn && g.r.Chance(1, 6) {
			// a return without a value as the last statement of the block
			g.features["bare-return"] = true
			u := tag("<%", false, "return")
			u.glueOK = true
			out = append(out, u)
		}
		for e := g.r.Intn(3); e > 0; e-- {
			g.features["else-if"] = true
			u := tag("<%", false, append(append([]string{"}", "else", "if", "("}, g.cond(1)...), ")", "{")...)
			u.glueOK = true
			out = append(out, u)
			out = append(out, g.stmts(depth-1, g.r.Range(0, 2))...)
			g.ints, g.strs, g.fns = saveI, saveS, saveF
		}
		if g.r.Bool() {
			g.features["else"] = true
			out = append(out, tag("<%", false, "}", "else", "{"))
			out = append(out, g.stmts(depth-1, g.r.Range(0, 2))...)
		}
		return append(out, tag("<%", false, "}"))
	case k == 10 && depth > 0:
		g.features["for"] = true
		kv, vv := g.fresh("k"), g.fresh("v")
		open := pick(g.r, []string{"<%=", "<%=", "<%"})
		src := pick(g.r, []string{"xs", "nums", "range(1, 3)", "mp"})
		head := []string{"for", "(", kv, ",", vv, ")", "in"}
		if src == "range(1, 3)" {
			head = append(head, "range", "(", "1", ",", "3", ")", "{")
		} else {
			head = append(head, src, "{")
		}
		if src == "mp" {
			g.features["for-over-map"] = true
		}
		out := []pUnit{tag(open, false, head...)}
		if src != "mp" {
			out = append(out, tag("<%=", true, vv))
		}
		g.inLoop++
		saveI, saveS, saveF := g.ints, g.strs, g.fns
		defer func() { g.ints, g.strs, g.fns = saveI, saveS, saveF }()
		if g.r.Chance(1, 3) && src != "mp" {
			g.features["break-continue"] = true
			out = append(out, tag("<%", false, "if", "(", kv, "==", "1", ")", "{"), tag("<%", true, pick(g.r, []string{"continue", "break"})), tag("<%", false, "}"))
		} else if g.r.Chance(1, 4) && src != "mp" {
			// ... or the same inside the block of a block helper
			g.features["break-continue-in-helper-block"] = true
			out = append(out, tag("<%=", false, "cap", "(", ")", "{"), pUnit{text: "h"}, tag("<%", false, "if", "(", kv, "==", "1", ")", "{"), tag("<%", true, pick(g.r, []string{"continue", "break"})), tag("<%", false, "}"), pUnit{text: "b"}, tag("<%", false, "}"))
		}
		if src == "mp" {
			// map bodies must be order-insensitive: literal text only
			out = append(out, pUnit{text: "m"})
		} else {
			out = append(out, g.stmts(depth-1, g.r.Range(0, 2))...)
		}
		g.inLoop--
		return append(out, tag("<%", false, "}"))
	case k == 11 && depth > 0:
		g.features["fn-def"] = true
		f := g.fresh("fn")
		out := []pUnit{tag("<%", false, "let", f, "=", "fn", "(", "pa", ",", "pb", ")", "{")}
		saveI, saveS, saveF := g.ints, g.strs, g.fns
		g.ints = append([]string{"pa", "pb"}, g.ints...)
		if g.r.Bool() {
			out = append(out, tag("<%", false, "if", "(", "pa", ">", "pb", ")", "{"), tag("<%", true, append([]string{"return"}, g.intExpr(1)...)...), tag("<%", false, "}"))
		}
		out = append(out, tag("<%", true, append([]string{"return"}, g.intExpr(1)...)...))
		g.ints, g.strs, g.fns = saveI, saveS, saveF
		out = append(out, tag("<%", false, "}"))
		g.fns = append(g.fns, f)
		return out
	case k == 12 && depth > 0:
		g.features["helper-block"] = true
		out := []pUnit{tag("<%=", false, "cap", "(", ")", "{")}
		out = append(out, g.stmts(depth-1, g.r.Range(1, 2))...)
		return append(out, tag("<%", false, "}"))
	case k == 13 && !g.noFail && g.r.Chance(1, 3):
		g.features["failing-statement"] = true
		return []pUnit{tag("<%=", true, pick(g.r, []string{"nosuchvar", "1 / 0", "xs[9]", "tt.Nope"}))}
	case k == 13 && !g.noAssign && g.r.Bool():
		// an array literal that is then updated in place
		g.features["array-literal-updated-in-place"] = true
		v := g.fresh("ar")
		return []pUnit{tag("<%", true, "let", v, "=", "[", "1", ",", "2", ",", "3", "]"),
			tag("<%", true, v, "[", "0", "]", "=", v, "[", "0", "]", "+", "10"), tag("<%=", true, v, "[", "0", "]"), tag("<%=", true, v, "[", "1", "]")}
	case k == 13 && !g.noAssign:
		// an empty hash literal that is then written to
		g.features["empty-hash-then-write"] = true
		v := g.fresh("eh")
		return []pUnit{tag("<%", true, "let", v, "=", "{", "}"), tag("<%=", true, "len", "(", v, ")"),
			tag("<%", true, append([]string{v, "[", `"k"`, "]", "="}, g.intExpr(1)...)...), tag("<%=", true, v, "[", `"k"`, "]")}
	case k == 15 && g.partials:
		g.features["partial"] = true
		return []pUnit{tag("<%=", true, "partial", "(", pick(g.r, []string{`"pp"`, `"pq"`}), ",", "{", "iv", ":", fmt.Sprint(g.r.Intn(9)), "}", ")")}
	case k == 14 && depth > 0:
		g.features["contentFor"] = true
		c := g.fresh("c")
		out := []pUnit{tag("<%", false, "contentFor", "(", `"`+c+`"`, ")", "{")}
		saveI, saveS, saveF := g.ints, g.strs, g.fns
		out = append(out, g.stmts(depth-1, g.r.Range(1, 2))...)
		g.ints, g.strs, g.fns = saveI, saveS, saveF
		out = append(out, tag("<%", false, "}"))
		return append(out, tag("<%=", true, "contentOf", "(", `"`+c+`"`, ")"))
	}
	g.features["output"] = true
	return []pUnit{tag("<%=", true, g.anyExpr()...)}
}

// genProgram builds a random program.
func genProgram(r *core.Rng, depth int, opts func(*pGen)) *pProg {
	g := newPGen(r)
	if opts != nil {
		opts(g)
	}
	units := g.stmts(depth, r.Range(2, 6))
	return &pProg{units: units, features: g.features, partials: map[string]string{}}
}

// canonical prints one statement per tag with single spaces.
func (p *pProg) canonical() string {
	var sb strings.Builder
	for _, u := range p.units {
		if u.toks == nil {
			sb.WriteString(u.text)
			continue
		}
		sb.WriteString(u.open + " " + strings.Join(u.toks, " ") + " %>")
	}
	return sb.String()
}

type progEnv struct {
	trace []string
}

// progCtx is the data every generated program runs against. shared says the
// data is shared between executions (then programs must not mutate it).
func progCtx(env *progEnv) *plush.Context { return progCtxV(env, 0) }

// progCtxV builds the data in one of two variants; variant 1 differs in
// scalar values, collection contents and in what the partial feeder returns.
func progCtxV(env *progEnv, variant int) *plush.Context {
	ctx := plush.NewContext()
	if variant == 1 {
		ctx.Set("ci", 4)
		ctx.Set("cs", "alt&")
		ctx.Set("xs", []string{"y0", "y1", "y2", "y3"})
		ctx.Set("partialFeeder", func(n string) (string, error) {
			return "Q{" + n + ":<%= cs %>,<%= iv %>}", nil
		})
	} else {
		ctx.Set("ci", 3)
		ctx.Set("cs", "str<")
		ctx.Set("xs", []string{"x0", "x1", "x2"})
		ctx.Set("partialFeeder", func(n string) (string, error) {
			return "P[" + n + ":<%= ci %>,<%= iv %>]", nil
		})
	}
	// a slice with spare capacity: values made from it with + must not share its storage
	spare := make([]interface{}, 2, 16)
	spare[0], spare[1] = "s0", "s1"
	ctx.Set("spare", spare)
	progCtxCommon(ctx, env)
	return ctx
}

// eight distinct struct types for pathFor (type-derived names)
type pfAlpha struct{ ID int }
type pfBravo struct{ ID int }
type pfCharlie struct{ ID int }
type pfDelta struct{ Slug string }
type pfEcho struct{ ID int }
type pfFoxtrot struct{ ID int }
type pfGolf struct{ Slug string }
type pfHotel struct{ ID int }

func progCtxCommon(ctx *plush.Context, env *progEnv) {
	for i, v := range []interface{}{pfAlpha{1}, &pfBravo{2}, pfCharlie{3}, pfDelta{"d"}, &pfEcho{5}, []pfFoxtrot{{6}}, pfGolf{"g"}, pfHotel{8}} {
		ctx.Set(fmt.Sprintf("pf%d", i), v)
	}
	ctx.Set("nums", []int{5, 6, 7})
	ctx.Set("mp", map[string]int{"a": 1, "b": 2, "c": 3})
	ctx.Set("hh", map[string]interface{}{"k": "hv"})
	ctx.Set("tt", newT("tee"))
	tn := newT("tn")
	nx := newT("next")
	tn.Next = &nx
	ctx.Set("tn", tn)
	ctx.Set("up", func(s string) string { return strings.ToUpper(s) })
	ctx.Set("val", func(id string, v interface{}) interface{} {
		if env != nil {
			env.trace = append(env.trace, id)
		}
		return v
	})
	ctx.Set("cap", func(h plush.HelperContext) (template.HTML, error) {
		s, err := h.Block()
		return template.HTML("(" + s + ")"), err
	})
}
