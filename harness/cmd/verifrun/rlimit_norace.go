//go:build !race

package main

import "syscall"

// limitMemory bounds the address space of a worker: a parser or evaluator whose
// memory use explodes ends its own process (reported as a process-level finding)
// instead of exhausting the machine. The race build maps far more than this
// for its shadow memory and is left alone.
func limitMemory() {
	const limit = 24 << 30
	_ = syscall.Setrlimit(syscall.RLIMIT_AS, &syscall.Rlimit{Cur: limit, Max: limit})
}
