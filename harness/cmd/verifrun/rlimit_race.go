//go:build race

package main

func limitMemory() {}
