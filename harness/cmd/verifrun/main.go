// verifrun: supervisor / worker / replay for the plush runtime monitors.
package main

import (
	"encoding/json"
	"flag"
	"fmt"
	"os"
	"path/filepath"
	"runtime/debug"
	"strconv"
	"strings"

	"verifharness/internal/core"
	_ "verifharness/internal/props"
)

func main() {
	if len(os.Args) < 2 {
		fmt.Fprintln(os.Stderr, "usage: verifrun supervise|work|replay|list ...")
		os.Exit(2)
	}
	switch os.Args[1] {
	case "supervise":
		os.Exit(supervise(os.Args[2:]))
	case "work":
		os.Exit(work(os.Args[2:]))
	case "replay":
		os.Exit(replay(os.Args[2:]))
	case "list":
		for _, id := range core.AllIDs() {
			fmt.Println(id)
		}
	default:
		fmt.Fprintln(os.Stderr, "unknown subcommand")
		os.Exit(2)
	}
}

func seedFromEnv() uint64 {
	if s := os.Getenv("VERIF_SEED"); s != "" {
		if v, err := strconv.ParseInt(s, 10, 64); err == nil {
			return uint64(v)
		}
	}
	return 1
}

func supervise(args []string) int {
	fs := flag.NewFlagSet("supervise", flag.ExitOnError)
	prop := fs.String("prop", "", "property id")
	tier := fs.String("tier", "quick", "quick|thorough")
	root := fs.String("root", "/verif", "verif root")
	procs := fs.Int("procs", 0, "parallel workers")
	fs.Parse(args)
	self, _ := os.Executable()
	return core.Supervise(&core.SupOpts{Root: *root, Self: self, Prop: *prop, Tier: core.ParseTier(*tier), Seed: seedFromEnv(), Procs: *procs})
}

func work(args []string) int {
	fs := flag.NewFlagSet("work", flag.ExitOnError)
	prop := fs.String("prop", "", "")
	tier := fs.String("tier", "quick", "")
	seed := fs.Uint64("seed", 1, "")
	batch := fs.Int("batch", 0, "")
	nb := fs.Int("nbatches", 1, "")
	out := fs.String("out", "", "")
	jrn := fs.String("journal", "", "")
	skip := fs.String("skip", "", "")
	only := fs.Int64("only", 0, "")
	quiet := fs.Bool("quiet", false, "")
	root := fs.String("root", "/verif", "")
	fs.Parse(args)
	p := core.Lookup(*prop)
	if p == nil {
		fmt.Fprintln(os.Stderr, "unknown property", *prop)
		return 2
	}
	core.Root = *root
	// recursion that has no bound should end a worker quickly, not after a gigabyte of stack
	debug.SetMaxStack(256 << 20)
	limitMemory()
	b, err := core.NewB(*prop, core.ParseTier(*tier), *seed, *batch, *nb, *jrn)
	if err != nil {
		fmt.Fprintln(os.Stderr, err)
		return 2
	}
	if *skip != "" {
		for _, s := range strings.Split(*skip, ",") {
			v, _ := strconv.ParseInt(s, 10, 64)
			b.Skip[v] = true
		}
	}
	b.Only = *only
	if *quiet {
		b.Only = *only
	}
	p.Run(b)
	if *out != "" {
		if err := b.Finish(*out); err != nil {
			fmt.Fprintln(os.Stderr, err)
			return 2
		}
	}
	return 0
}

func replay(args []string) int {
	if len(args) < 1 {
		fmt.Fprintln(os.Stderr, "usage: verifrun replay <file>")
		return 2
	}
	d, err := os.ReadFile(args[0])
	if err != nil {
		fmt.Fprintln(os.Stderr, err)
		return 2
	}
	var r struct {
		Property string `json:"property"`
		Tier     string `json:"tier"`
		Seed     uint64 `json:"seed"`
		NBatches int    `json:"nbatches"`
		Batch    int    `json:"batch"`
		Ordinal  int64  `json:"ordinal"`
		Sig      string `json:"signature"`
	}
	if err := json.Unmarshal(d, &r); err != nil {
		fmt.Fprintln(os.Stderr, err)
		return 2
	}
	p := core.Lookup(r.Property)
	if p == nil {
		fmt.Fprintln(os.Stderr, "unknown property", r.Property)
		return 2
	}
	root := "/verif"
	if abs, err := filepath.Abs(args[0]); err == nil {
		if i := strings.Index(abs, "/replays/"); i > 0 {
			root = abs[:i]
		}
	}
	core.Root = root
	b, err := core.NewB(r.Property, core.ParseTier(r.Tier), r.Seed, r.Batch, r.NBatches, "")
	if err != nil {
		fmt.Fprintln(os.Stderr, err)
		return 2
	}
	b.Only = r.Ordinal
	if r.Ordinal == 0 {
		fmt.Println("replay file has no ordinal (process-level finding); see its detail field")
		return 2
	}
	fmt.Printf("replaying %s batch %d/%d ordinal %d (expected signature %s)\n", r.Property, r.Batch, r.NBatches, r.Ordinal, r.Sig)
	p.Run(b)
	if b.ViolationCount() == 0 {
		fmt.Println("REPLAY RESULT: the property held on this case (no violation on the current tree)")
		return 0
	}
	fmt.Println("REPLAY RESULT: violated")
	return 1
}
